use super::*;
#[kani::proof]
#[kani::unwind(9)]
fn snippet_slices_small() {
    const N: usize = 5;
    let bytes: [u8; N] = kani::any();
    let len: usize = kani::any();
    kani::assume(len >= 1 && len <= N);
    let s = match std::str::from_utf8(&bytes[..len]) { Ok(s) => s, Err(_) => { kani::assume(false); return; } };
    let o0: (usize, usize) = (kani::any(), kani::any());
    let o1: (usize, usize) = (kani::any(), kani::any());
    kani::assume(o0.1 < usize::MAX / 2 && o1.1 < usize::MAX / 2);
    let nocc: usize = kani::any();
    kani::assume(nocc <= 2);
    let occ = [o0, o1];
    let window: usize = kani::any();
    kani::assume(window <= 8);
    let maxs: usize = kani::any();
    kani::assume(maxs >= 1 && maxs <= 3);
    let out = compute_snippet_slices(s, &occ[..nocc], window, maxs);
    assert!(out.len() <= maxs);
    let mut prev_end = 0usize;
    let mut i = 0;
    while i < out.len() {
        let (a, b) = out[i];
        assert!(a < b, "non-empty");
        assert!(b <= s.len());
        assert!(s.is_char_boundary(a) && s.is_char_boundary(b));
        if i > 0 { assert!(a > prev_end); }
        prev_end = b;
        i += 1;
    }
    core::mem::forget(out);
}
