#!/bin/bash
# usage: run.sh <harness> <logname> [extra args]
h=$1; l=$2; shift 2
cd /tmp/probe/repo
( time CARGO_NET_OFFLINE=true timeout ${TMO:-1500} cargo kani --no-default-features --target-dir ${TGT:-/tmp/probe/tgt} -Z stubbing --harness $h "$@" > /tmp/probe/$l.log 2>&1; echo EXIT $? >> /tmp/probe/$l.log ) 2> /tmp/probe/$l.time
grep -v "aborting path\|Unwinding\|^$\|Status: SUCCESS\|Description\|Location\|^Check \|process didn't exit\|^warning\|^ *|\|^ *=\|^ *-->" /tmp/probe/$l.log | cut -c1-300 | tail -${TAILN:-30}
grep real /tmp/probe/$l.time
