use super::*;
static mut DIST: [f32; 3] = [0.0; 3];
fn stub_l2(_a: &[f32], b: &[f32]) -> f32 { unsafe { DIST[b[0] as usize] } }
#[kani::proof]
#[kani::unwind(6)]
#[kani::stub(crate::simd::l2_distance_simd, stub_l2)]
fn vec_search_topk() {
    let d: [f32; 3] = kani::any();
    let mut i = 0; while i < 3 { kani::assume(!d[i].is_nan()); i += 1; }
    unsafe { DIST = d; }
    let docs = vec![VecDocument { frame_id: 10, embedding: vec![0.0] }, VecDocument { frame_id: 11, embedding: vec![1.0] }, VecDocument { frame_id: 12, embedding: vec![2.0] }];
    let idx = VecIndex::Uncompressed { documents: docs };
    let k: usize = kani::any();
    kani::assume(k <= 4);
    let hits = idx.search(&[0.5], k);
    assert!(hits.len() == core::cmp::min(k, 3));
    let mut j = 1;
    while j < hits.len() { assert!(hits[j - 1].distance <= hits[j].distance); j += 1; }
    if let Some(last) = hits.last() {
        let mut m = 0;
        while m < 3 {
            let fid = 10 + m as u64;
            let mut present = false; let mut q = 0; while q < hits.len() { if hits[q].frame_id == fid { present = true; } q += 1; }
            if !present { assert!(!(d[m] < last.distance), "omitted frame strictly closer than last hit"); }
            m += 1;
        }
    }
    core::mem::forget(hits); core::mem::forget(idx);
}
