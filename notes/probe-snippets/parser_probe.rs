use super::*;
fn tok(k: u8) -> Token {
    match k % 7 { 0 => Token::Word(String::from("a")), 1 => Token::Word(String::from("b")), 2 => Token::LParen, 3 => Token::RParen, 4 => Token::And, 5 => Token::Or, _ => Token::Not }
}
fn stub_fmt(_a: std::fmt::Arguments<'_>) -> String { String::new() }
#[kani::proof]
#[kani::unwind(8)]
#[kani::stub(alloc::fmt::format, stub_fmt)]
fn parser_total_tokens() {
    let n: usize = kani::any();
    kani::assume(n <= 4);
    let ks: [u8; 4] = kani::any();
    let mut v = Vec::new();
    let mut i = 0;
    while i < n { v.push(tok(ks[i])); i += 1; }
    let mut p = Parser::new(v);
    let r = p.parse_expression();
    kani::cover!(r.is_ok(), "some parse ok");
    core::mem::forget(r); core::mem::forget(p);
}
