use super::*;
use std::io;
use std::os::fd::FromRawFd;

const REGION: usize = 160;
const DISK: usize = REGION;
static mut DISK_BYTES: [u8; DISK] = [0; DISK];
static mut POS: u64 = 0;

fn stub_seek(_f: &mut File, pos: SeekFrom) -> io::Result<u64> {
    unsafe {
        match pos {
            SeekFrom::Start(p) => { POS = p; }
            _ => { kani::assume(false); }
        }
        Ok(POS)
    }
}
fn stub_read_exact(_f: &mut File, buf: &mut [u8]) -> io::Result<()> {
    unsafe {
        let p = POS as usize;
        if p > DISK || buf.len() > DISK - p { return Err(io::Error::from(io::ErrorKind::UnexpectedEof)); }
        core::ptr::copy_nonoverlapping((&raw const DISK_BYTES as *const u8).add(p), buf.as_mut_ptr(), buf.len());
        POS += buf.len() as u64;
        Ok(())
    }
}
fn stub_write_all(_f: &mut File, buf: &[u8]) -> io::Result<()> {
    unsafe {
        let p = POS as usize;
        assert!(p <= DISK && buf.len() <= DISK - p, "write past modelled disk");
        core::ptr::copy_nonoverlapping(buf.as_ptr(), (&raw mut DISK_BYTES as *mut u8).add(p), buf.len());
        POS += buf.len() as u64;
        Ok(())
    }
}
fn stub_read(_f: &mut File, buf: &mut [u8]) -> io::Result<usize> {
    unsafe {
        let p = POS as usize;
        kani::assume(p <= DISK);
        let n = core::cmp::min(buf.len(), DISK - p);
        core::ptr::copy_nonoverlapping((&raw const DISK_BYTES as *const u8).add(p), buf.as_mut_ptr(), n);
        POS += n as u64;
        Ok(n)
    }
}
fn stub_write(_f: &mut File, buf: &[u8]) -> io::Result<usize> {
    unsafe {
        let p = POS as usize;
        assert!(p + buf.len() <= DISK, "write past modelled disk");
        core::ptr::copy_nonoverlapping(buf.as_ptr(), (&raw mut DISK_BYTES as *mut u8).add(p), buf.len());
        POS += buf.len() as u64;
        Ok(buf.len())
    }
}
fn stub_sync_all(_f: &File) -> io::Result<()> { Ok(()) }
fn stub_try_clone(_f: &File) -> io::Result<File> { Ok(unsafe { File::from_raw_fd(3) }) }
fn stub_hash(input: &[u8]) -> blake3::Hash {
    let mut out = [0u8; 32];
    out[0] = input.len() as u8;
    if !input.is_empty() { out[1] = input[0]; out[2] = input[input.len() - 1]; }
    blake3::Hash::from_bytes(out)
}
fn stub_is_enabled(_m: &tracing::Metadata<'static>, _i: tracing::subscriber::Interest) -> bool { false }
fn stub_register(_c: &'static tracing::callsite::DefaultCallsite) -> tracing::subscriber::Interest { tracing::subscriber::Interest::never() }
fn stub_dispatch<'a>(_m: &'static tracing::Metadata<'static>, _f: &'a tracing::field::ValueSet<'_>) where 'a: 'a {}
fn stub_get_default<T, F>(mut f: F) -> T where F: FnMut(&tracing::Dispatch) -> T { let d = tracing::Dispatch::none(); f(&d) }


macro_rules! wal_stubs { ($(#[$m:meta])* fn $name:ident() $b:block) => {
#[kani::proof]
#[kani::unwind(5)]
#[kani::stub(<std::fs::File as std::io::Seek>::seek, stub_seek)]
#[kani::stub(<std::fs::File as std::io::Read>::read, stub_read)]
#[kani::stub(<std::fs::File as std::io::Write>::write, stub_write)]
#[kani::stub(std::fs::File::sync_all, stub_sync_all)]
#[kani::stub(std::fs::File::try_clone, stub_try_clone)]
#[kani::stub(blake3::hash, stub_hash)]
#[kani::stub(tracing::__macro_support::__is_enabled, stub_is_enabled)]
#[kani::stub(tracing::callsite::DefaultCallsite::register, stub_register)]
#[kani::stub(tracing::Event::dispatch, stub_dispatch)]
#[kani::stub(tracing::dispatcher::get_default, stub_get_default)]
$(#[$m])*
fn $name() $b
}}

wal_stubs!{ fn wal_two_fixed() {
    let file = unsafe { File::from_raw_fd(3) };
    let rs: u64 = kani::any();
    kani::assume(rs >= 97 && rs <= REGION as u64);
    let header = crate::types::Header {
        magic: *b"MV2\0", version: 0x0201, footer_offset: 0, wal_offset: 0,
        wal_size: rs, wal_checkpoint_pos: 0, wal_sequence: 0, toc_checksum: [0u8; 32],
    };
    let r = EmbeddedWal::open(&file, &header);
    let mut wal = match r { Ok(w) => w, Err(e) => { core::mem::forget(e); assert!(false); return; } };
    let p1: [u8; 1] = kani::any();
    let p2: [u8; 20] = kani::any();
    let r1 = wal.append_entry(&p1);
    let r2 = wal.append_entry(&p2);
    let acked = (r1.is_ok() as usize) + (r2.is_ok() as usize);
    kani::cover!(acked == 2, "both acked");
    let recs = wal.pending_records();
    match &recs { Ok(v) => { assert!(v.len() == acked, "acked appends must be pending"); }, Err(_) => assert!(false, "scan failed") }
    core::mem::forget(recs);
    core::mem::forget(r1); core::mem::forget(r2);
    core::mem::forget(wal); core::mem::forget(file);
}}

static mut G_START: [u64; 4] = [0; 4];
static mut G_LEN: [u64; 4] = [0; 4];
static mut G_N: usize = 0;
static mut G_CLOBBER: bool = false;
fn stub_write_mon(_f: &mut File, buf: &[u8]) -> io::Result<usize> {
    unsafe {
        let p = POS;
        assert!(p as usize + buf.len() <= DISK, "write past modelled disk");
        let mut i = 0;
        while i < G_N { if p < G_START[i] + G_LEN[i] && G_START[i] < p + buf.len() as u64 { G_CLOBBER = true; } i += 1; }
        core::ptr::copy_nonoverlapping(buf.as_ptr(), (&raw mut DISK_BYTES as *mut u8).add(p as usize), buf.len());
        POS += buf.len() as u64;
        Ok(buf.len())
    }
}
#[kani::proof]
#[kani::unwind(5)]
#[kani::stub(<std::fs::File as std::io::Seek>::seek, stub_seek)]
#[kani::stub(<std::fs::File as std::io::Read>::read, stub_read)]
#[kani::stub(<std::fs::File as std::io::Write>::write, stub_write_mon)]
#[kani::stub(std::fs::File::sync_all, stub_sync_all)]
#[kani::stub(std::fs::File::try_clone, stub_try_clone)]
#[kani::stub(blake3::hash, stub_hash)]
#[kani::stub(tracing::__macro_support::__is_enabled, stub_is_enabled)]
#[kani::stub(tracing::callsite::DefaultCallsite::register, stub_register)]
#[kani::stub(tracing::Event::dispatch, stub_dispatch)]
#[kani::stub(tracing::dispatcher::get_default, stub_get_default)]
fn wal_geom() {
    let file = unsafe { File::from_raw_fd(3) };
    let rs: u64 = kani::any();
    kani::assume(rs >= 97 && rs <= REGION as u64);
    let header = crate::types::Header {
        magic: *b"MV2\0", version: 0x0201, footer_offset: 0, wal_offset: 0,
        wal_size: rs, wal_checkpoint_pos: 0, wal_sequence: 0, toc_checksum: [0u8; 32],
    };
    let _ = &header;
    let mut wal = EmbeddedWal { file: unsafe { File::from_raw_fd(3) }, region_offset: 0, region_size: rs, write_head: 0, checkpoint_head: 0,
        pending_bytes: 0, sequence: 0, checkpoint_sequence: 0, appends_since_checkpoint: 0, read_only: false, skip_sync: false };
    let p1: [u8; 1] = kani::any();
    let p2: [u8; 20] = kani::any();
    let h0 = wal.write_head;
    let r1 = wal.append_entry(&p1);
    if r1.is_ok() { unsafe { G_START[G_N] = h0; G_LEN[G_N] = 49; G_N += 1; } }
    let h1 = wal.write_head;
    let wrapped1 = wal.write_head + 68 > rs;
    let r2 = wal.append_entry(&p2);
    if r2.is_ok() { unsafe { G_START[G_N] = if wrapped1 {0} else {h1}; G_LEN[G_N] = 68; G_N += 1; } }
    kani::cover!(r1.is_ok() && r2.is_ok(), "both acked");
    unsafe { assert!(!G_CLOBBER, "a write overlapped a pending record"); }
    core::mem::forget(r1); core::mem::forget(r2);
    core::mem::forget(wal); core::mem::forget(file);
}
