use super::*;
fn stub_fmt(_a: std::fmt::Arguments<'_>) -> String { String::new() }
#[kani::proof]
#[kani::unwind(6)]
#[kani::stub(alloc::fmt::format, stub_fmt)]
fn adaptive_bounds() {
    const N: usize = 3;
    let sc: [f32; N] = kani::any();
    let n: usize = kani::any();
    kani::assume(n <= N);
    let mut i = 0; while i < N { kani::assume(sc[i].is_finite() && sc[i].abs() < 1.0e30); i += 1; }
    let min_results: usize = kani::any();
    kani::assume(min_results <= 4);
    let thr: f32 = kani::any();
    kani::assume(thr.is_finite());
    let which: u8 = kani::any();
    let strategy = match which % 2 { 0 => CutoffStrategy::AbsoluteThreshold { min_score: thr }, _ => CutoffStrategy::RelativeThreshold { min_ratio: thr } };
    let cfg = AdaptiveConfig { enabled: true, max_results: 100, min_results, strategy, normalize_scores: kani::any() };
    let (cut, why) = find_adaptive_cutoff(&sc[..n], &cfg);
    assert!(cut <= n);
    assert!(cut >= core::cmp::min(min_results, n));
    core::mem::forget(why); core::mem::forget(cfg);
}
