use super::*;
fn stub_memrchr(needle: u8, hay: &[u8]) -> Option<usize> { let mut i = hay.len(); while i > 0 { i -= 1; if hay[i] == needle { return Some(i); } } None }
fn stub_hash_matches(f: &CommitFooter, toc: &[u8]) -> bool { weak(toc) == f.toc_hash }
fn weak(b: &[u8]) -> [u8; 32] { let mut o = [0u8; 32]; o[0] = b.len() as u8; if !b.is_empty() { o[1] = b[0]; o[2] = b[b.len() - 1]; } o }
#[kani::proof]
#[kani::unwind(70)]
#[kani::stub(memchr::memrchr, stub_memrchr)]
#[kani::stub(CommitFooter::hash_matches, stub_hash_matches)]
fn footer_scan_small() {
    const N: usize = FOOTER_SIZE + 8;
    let buf: [u8; N] = kani::any();
    let r = find_last_valid_footer(&buf);
    if let Some(s) = &r {
        assert!(s.footer_offset + FOOTER_SIZE <= N);
        assert!(s.toc_offset + s.toc_bytes.len() == s.footer_offset);
        assert!(s.footer.toc_len as usize == s.toc_bytes.len());
        assert!(weak(s.toc_bytes) == s.footer.toc_hash);
        kani::cover!(true, "found a footer");
    }
    core::mem::forget(r);
}
