use super::*;
use std::os::fd::FromRawFd;
use crate::types::{Frame, FrameRole, FrameStatus, CanonicalEncoding, SearchRequest};

fn stub_random_state() -> std::hash::RandomState { unsafe { core::mem::transmute::<[u64; 2], std::hash::RandomState>([1, 2]) } }

pub(crate) fn mk_frame(id: u64, ts: i64, status: FrameStatus) -> Frame {
    Frame {
        id, timestamp: ts, anchor_ts: None, anchor_source: None, kind: None, track: None,
        payload_offset: 0, payload_length: 0, checksum: [0u8; 32], uri: None, title: None,
        canonical_encoding: CanonicalEncoding::Plain, canonical_length: None, metadata: None,
        search_text: None, tags: Vec::new(), labels: Vec::new(), extra_metadata: std::collections::BTreeMap::new(),
        content_dates: Vec::new(), role: FrameRole::Document, parent_id: None, chunk_index: None,
        chunk_count: None, chunk_manifest: None, status, supersedes: None, superseded_by: None,
        source_sha256: None, source_path: None, enrichment_state: crate::types::EnrichmentState::default(),
    }
}

pub(crate) fn mk_memvid(toc: Toc, header: Header) -> Memvid {
    let file = unsafe { File::from_raw_fd(3) };
    let wal: EmbeddedWal = unsafe { core::mem::zeroed() };
    Memvid {
        file, path: PathBuf::new(), lock: unsafe { core::mem::zeroed() }, read_only: false, header, toc, wal,
        pending_frame_inserts: 0, data_end: 0, cached_payload_end: 0, generation: 0,
        lock_settings: LockSettings::default(), lex_enabled: false, lex_index: None,
        vec_enabled: false, vec_compression: VectorCompression::None, vec_model: None, vec_index: None,
        clip_enabled: false, clip_index: None, dirty: false,
        memories_track: MemoriesTrack::new(), logic_mesh: LogicMesh::new(), sketch_track: SketchTrack::default(),
        schema_registry: SchemaRegistry::empty(), schema_strict: false, batch_opts: None,
    }
}

#[kani::proof]
#[kani::unwind(5)]
#[kani::stub(std::hash::RandomState::new, stub_random_state)]
fn replay_ids_kernel() {
    let mut toc = empty_toc();
    let st = |b: u8| match b % 3 { 0 => FrameStatus::Active, 1 => FrameStatus::Deleted, _ => FrameStatus::Superseded };
    let t0: i64 = kani::any(); let t1: i64 = kani::any(); let t2: i64 = kani::any();
    let s0: u8 = kani::any(); let s1: u8 = kani::any(); let s2: u8 = kani::any();
    toc.frames.push(mk_frame(0, t0, st(s0)));
    toc.frames.push(mk_frame(1, t1, st(s1)));
    toc.frames.push(mk_frame(2, t2, st(s2)));
    let header = Header { magic: MAGIC, version: SPEC_VERSION, footer_offset: 0, wal_offset: WAL_OFFSET, wal_size: WAL_SIZE_TINY, wal_checkpoint_pos: 0, wal_sequence: 0, toc_checksum: [0; 32] };
    let mv = mk_memvid(toc, header);
    let mut req = SearchRequest { query: String::new(), top_k: 10, snippet_chars: 100, uri: None, scope: None, cursor: None,
        as_of_frame: kani::any(), as_of_ts: kani::any(), no_sketch: false, acl_context: None, acl_enforcement_mode: Default::default() };
    let ids = mv.get_replay_frame_ids(&req);
    if let Ok(v) = &ids {
        let mut i = 0;
        while i < v.len() {
            let id = v[i];
            assert!(id < 3);
            let f = &mv.toc.frames[id as usize];
            assert!(f.status == FrameStatus::Active);
            if let Some(n) = req.as_of_frame { assert!(id <= n); }
            if let Some(t) = req.as_of_ts { assert!(f.timestamp <= t); }
            i += 1;
        }
        kani::cover!(v.len() == 3, "all three");
    }
    core::mem::forget(ids); core::mem::forget(mv); let _ = &mut req; core::mem::forget(req);
}
