"""Registry: which harnesses decide which property, with their bounds.

REG[<property id>] = {
  features:   cargo features added to --no-default-features for this property
  cbmc_args:  extra CBMC arguments (per-loop unwind sets)
  harnesses:  { name: { tier, module, enc, sym, bound, replay, ... } }
  assumptions / out: what is trusted / what lies outside the claim
}
tier "quick" harnesses run in both tiers; tier "thorough" only in the thorough tier.
module = file stem under /verif/harness (the native-replay slot).
replay = "native" (default: cargo kani playback on the real build) or
         "solver-only" (environment faults injected by stubs; cannot be provoked natively).
"""

COMMON_ASSUMPTIONS = [
    "Kani 0.68.0 / CBMC 6.11.0 / CaDiCaL are sound for the Rust MIR -> goto translation of the functions listed",
    "run with --no-memory-safety-checks: pointer-validity conditions of safe Rust are not checked; overflow, bounds, unwrap/expect/panic, unreachable and unwinding assertions are",
    "tracing macros have no effect on state (stubbed: __is_enabled -> false, register -> never, dispatch -> no-op, get_default -> Dispatch::none)",
    "a PASS covers only inputs inside each harness' stated bound; unwinding assertions are enabled so a too-small loop bound is reported, not truncated",
]

IO_ASSUMPTIONS = [
    "std::fs::File seek/read/write/flush/sync_all/sync_data/set_len/try_clone replaced by an in-memory disk with one shared offset (POSIX single-process semantics: a completed write is visible to later reads); I/O calls never fail",
    "blake3::hash replaced by a weak deterministic function (length, first, middle, last byte): the claim holds for any deterministic hash; collision resistance is outside the claim",
]

MEMCMP = ["--unwindset", "memcmp.0:34"]
# the in-memory disk (512 cells) is tracked cell by cell so that concretely-indexed reads stay concrete
FIELDS = ["--max-field-sensitivity-array-size", "520"]


def H(tier="quick", **kw):
    d = dict(tier=tier)
    d.update(kw)
    return d


REG = {}

REG["C05"] = dict(
    cbmc_args=MEMCMP + FIELDS,
    harnesses={
        "c05_step_append_1": H(module="wal", enc=["EmbeddedWal::append_entry", "write_record", "seek_and_write", "maybe_write_sentinel", "write_zero_header"],
                               sym="region size 1..2^26, region offset 0..8192, write head, pending bytes, sequence, checkpoint sequence, skip_sync, payload bytes",
                               bound="one append of a 1-byte payload from ANY state satisfying the log invariant (inductive step: stands for histories of any length)"),
        "c05_step_append_20": H(module="wal", enc=["EmbeddedWal::append_entry", "write_record", "maybe_write_sentinel", "write_zero_header"],
                                sym="as c05_step_append_1", bound="one append of a 20-byte payload from any invariant state"),
        "c05_step_append_300": H(module="wal", enc=["EmbeddedWal::append_entry", "write_record", "maybe_write_sentinel", "write_zero_header"],
                                 sym="as c05_step_append_1", bound="one append of a 300-byte payload from any invariant state"),
        "c05_step_checkpoint": H(module="wal", enc=["EmbeddedWal::record_checkpoint", "maybe_write_sentinel", "write_zero_header"],
                                 sym="as c05_step_append_1 plus the header", bound="one checkpoint from any invariant state"),
        "c05_step_scan": H(module="wal", enc=["EmbeddedWal::pending_records", "records_after", "initialise_sentinel", "maybe_write_sentinel"],
                           sym="as c05_step_append_1", bound="one pending_records() from any invariant state; scan_records itself replaced by a ghost returning the chain the invariant describes (<= 1 old + 1 pending aggregate record)"),
        "c05_step_open": H(module="wal", enc=["EmbeddedWal::open", "open_internal", "initialise_sentinel"], replay="solver-only",
                           sym="as c05_step_append_1 plus arbitrary header.wal_checkpoint_pos", bound="reopen-from-header on any invariant log; scan ghosted as in c05_step_scan"),
        "c05_record_layout": H(module="wal", enc=["EmbeddedWal::open", "append_entry", "write_record", "maybe_write_sentinel"],
                               sym="checkpoint sequence, 12 payload bytes", bound="200-byte zeroed region, one append of 12 bytes: every byte of the record image and of the sentinel checked"),
        "c05_scan_three_records": H(module="wal", enc=["EmbeddedWal::scan_records"],
                                    sym="first sequence number, payload bytes", bound="250-byte region image holding 3 well-formed records (60/49/60 bytes), zeros after; real scan_records called directly"),
        "c05_scan_ignores_stale_bytes": H(module="wal", enc=["EmbeddedWal::scan_records"], sym="first sequence, payload bytes, 8 stale bytes after the sentinel",
                                          bound="200-byte region, 2 records, zero sentinel, arbitrary stale bytes after it"),
        "c05_scan_short_tail": H(module="wal", enc=["EmbeddedWal::scan_records"], sym="first sequence, payload bytes, 8 arbitrary tail bytes",
                                 bound="128-byte region, 2 records ending at 109 (19-byte tail with arbitrary bytes)"),
        "c05_scan_exact_fit": H(module="wal", enc=["EmbeddedWal::scan_records"], sym="first sequence, payload bytes",
                                bound="109-byte region filled exactly by 2 records"),
        "c05_scan_empty": H(module="wal", enc=["EmbeddedWal::scan_records"], sym="8 stale bytes",
                            bound="100-byte region starting with a zero header followed by stale bytes: nothing is returned"),
    },
    assumptions=IO_ASSUMPTIONS + [
        "inductive-step harnesses: the data-less disk records (position, length, all-zero) of every write; the invariant is [0,wh-pb) old records, [wh-pb,wh) pending records, sentinel or <48-byte tail at wh; records are > 48 bytes; pending aggregated into one record",
        "payload lengths are concrete per harness (1, 20, 300): a symbolic length becomes a symbolic allocation size CBMC cannot handle; all branch conditions of wal.rs are linear in (write_head, entry_size, pending_bytes, region_size, 48), which are symbolic",
    ],
    out=["regions larger than 64 MiB", "payload lengths other than 1/20/300 in the step harnesses (geometry is symbolic instead)", "I/O errors", "empty payloads (excluded by the property's quantifier)", "debug_verify_header (tracing disabled)"],
)

REG["C30"] = dict(
    cbmc_args=[],
    harnesses={
        "c30_header_encode_decode": H(module="header", enc=["HeaderCodec::encode", "HeaderCodec::decode"], sym="all 8 header fields (magic, version, offsets, sizes, sequence, 32-byte checksum)",
                                      bound="every Header value; 4 KiB image"),
        "c30_header_decode_arbitrary": H(module="header", enc=["HeaderCodec::decode", "HeaderCodec::encode", "extract_array"], sym="all 4096 bytes of the header image",
                                         bound="every 4096-byte image"),
    },
    assumptions=[],
    out=["TOC (bincode/serde of the full struct) — see DESIGN.md", "legacy-lock clearing in HeaderCodec::read (C18)"],
)

REG["C13"] = dict(
    cbmc_args=[],
    harnesses={
        "c13_topk_3docs": H(module="vec", enc=["VecIndex::search (Uncompressed)", "l2_distance"], sym="3 arbitrary non-NaN distances (incl. infinities, ties, signed zeros), k in 0..4",
                            bound="3 documents, k <= 4; distance function replaced by an arbitrary table (any distance function)"),
        "c13_topk_4docs": H(module="vec", enc=["VecIndex::search (Uncompressed)"], sym="4 arbitrary non-NaN distances, k in 0..5", bound="4 documents, k <= 5"),
        "c13_empty_query": H(module="vec", enc=["VecIndex::search"], sym="-", bound="empty query vector"),
    },
    assumptions=["crate::simd::l2_distance_simd replaced by a table of arbitrary non-NaN distances: the ranking logic must be right for any distance function; the arithmetic is C38"],
    out=["NaN distances", "PQ (Compressed) and HNSW representations (feature-gated, >= 1000 vectors)", "more than 4 documents"],
)

REG["C14"] = dict(
    cbmc_args=[],
    harnesses={
        "c14_remove_entries_embedding_for": H(module="vec", enc=["VecIndex::remove", "VecIndex::entries", "VecIndex::embedding_for"], sym="3 frame ids (duplicates allowed), 3 embedding values, the id to remove",
                                              bound="3 one-dimensional documents"),
    },
    assumptions=[],
    out=["the representation switch at 1000 vectors; HNSW/PQ variants (entries() is empty there by construction) — known blind spot", "build_vec_artifact composition (see C14 builders harness when present)"],
)

REG["C38"] = dict(
    cbmc_args=[],
    harnesses={
        "c38_zero_on_equal_len4": H(module="simd", enc=["simd::l2_distance_squared_simd (scalar build)", "l2_distance_simd"], sym="4 finite f32 (bit-precise)", bound="length 4"),
        "c38_zero_on_equal_len9": H(module="simd", enc=["simd::l2_distance_squared_simd (scalar build)"], sym="9 finite f32", bound="length 9 (crosses the 8-lane boundary of the accelerated build)"),
        "c38_non_negative_len2": H(module="simd", enc=["simd::l2_distance_squared_simd"], sym="2x2 finite f32", bound="length 2"),
        "c38_symmetric_len1": H(module="simd", enc=["simd::l2_distance_squared_simd"], sym="2 finite f32", bound="length 1"),
        "c38_symmetric_len2": H("thorough", module="simd", enc=["simd::l2_distance_squared_simd"], sym="2x2 finite f32", bound="length 2"),
        "c38_empty_vectors": H(module="simd", enc=["simd::l2_distance_simd", "l2_distance_squared_simd"], sym="-", bound="length 0"),
        "c38_exact_domain_len2": H("thorough", module="simd", enc=["simd::l2_distance_squared_simd"], sym="2x2 integers in [-1024, 1024]", bound="length 2 on the exactness domain (every intermediate exact in f32)"),
    },
    assumptions=["built with --no-default-features: this is the scalar definition; the `simd` feature (wide crate) lowers to x86 intrinsics Kani cannot compile, so the accelerated build is NOT covered — the accelerated-vs-scalar half of the property is not discharged"],
    out=["the simd-feature build (the accelerated code itself)", "lengths > 9", "non-finite inputs"],
)

# ---------------------------------------------------------------------------
NOT_APPLICABLE = {}

REG["C37"] = dict(
    cbmc_args=[],
    harnesses={
        "c37_normalize_2_moderate": H("thorough", module="adaptive", enc=["normalize_scores"], sym="2 finite f32 with |x| <= 1e30 (bit-precise)", bound="2 scores, magnitude <= 1e30"),
        "c37_normalize_2_extreme": H("thorough", module="adaptive", enc=["normalize_scores"], sym="2 finite f32, full range", bound="2 scores, any finite value (max - min may overflow)"),
        "c37_normalize_3_moderate": H("thorough", module="adaptive", enc=["normalize_scores"], sym="3 finite f32 with |x| <= 1e30", bound="3 scores"),
        "c37_absolute_cutoff_4": H(module="adaptive", enc=["find_absolute_cutoff"], sym="4 finite scores, list length 0..4, threshold (any f32 incl. NaN/inf), min_results (any usize)", bound="<= 4 scores"),
        "c37_dispatch_raw_3": H(module="adaptive", enc=["find_adaptive_cutoff", "find_absolute_cutoff"], sym="3 finite scores, length 0..3, strategy absolute or relative with an arbitrary f32 parameter, min_results",
                                bound="<= 3 scores, normalize_scores = false"),
        "c37_dispatch_cliff_2": H("thorough", module="adaptive", enc=["find_adaptive_cutoff", "find_cliff_cutoff"], sym="2 finite scores, arbitrary max_drop_ratio, min_results", bound="<= 2 scores (one float division)"),
        "c37_dispatch_combined_2": H("thorough", module="adaptive", enc=["find_adaptive_cutoff", "find_combined_cutoff"], sym="2 finite scores, arbitrary parameters, min_results", bound="<= 2 scores (one float division)"),
        "c37_elbow_bounds_3": H("thorough", module="adaptive", enc=["find_elbow_cutoff"], sym="3 scores |x| <= 1e6, sensitivity 0..100, min_results 0..2", bound="exactly 3 scores"),
    },
    assumptions=["alloc::fmt::format stubbed to an empty string in the cut-off harnesses (the reason string is not part of the property)"],
    out=["lists longer than 4", "normalisation combined with a strategy in one query (float division makes the joint query intractable; the two halves are checked separately)", "NaN scores (excluded by the property)"],
)

REG["C35"] = dict(
    cbmc_args=[],
    harnesses={
        "c35_ascii_two_occurrences": H(module="lex", panic_is_violation=True, enc=["compute_snippet_slices", "sentence_start_before", "sentence_end_after", "prev_char_boundary", "next_char_boundary", "advance_boundary"],
                                       sym="4 text bytes over {a . space newline}; 0..2 occurrences with arbitrary usize bounds (< 2^63); window 1..2^63; max >= 1",
                                       bound="4-byte ASCII text, <= 2 occurrences"),
        "c35_multibyte_one_occurrence": H(module="lex", panic_is_violation=True, enc=["compute_snippet_slices"], sym="one occurrence (arbitrary usize bounds < 2^63), window 1..16, max >= 1",
                                          bound="fixed 9-byte text with 1-, 2- and 3-byte characters"),
        "c35_two_snippets_long_text": H("thorough", module="lex", panic_is_violation=True, enc=["compute_snippet_slices"], sym="two occurrences with bounds 0..64, window 1..4, max 1..3", bound="fixed 26-byte text"),
        "c35_window_zero": H(module="lex", panic_is_violation=True, expect="known", enc=["compute_snippet_slices"], sym="3 text bytes, 0..1 occurrence", bound="window = 0"),
        "c35_max_zero": H(module="lex", panic_is_violation=True, expect="known", enc=["compute_snippet_slices"], sym="3 text bytes, 1 occurrence", bound="max_snippets = 0"),
        "c35_huge_offsets": H(module="lex", panic_is_violation=True, expect="known", enc=["compute_snippet_slices"], sym="1 occurrence and window over the full usize range", bound="3-byte text"),
    },
    assumptions=["main harnesses assume window >= 1, max >= 1 and offsets < 2^63 — the domain the two callers (search fallback and Tantivy path, which clamp the window to >= 80 and pass in-bounds matches) can produce; the excluded corners are probed separately and recorded as known findings"],
    out=["texts longer than 32 bytes", "more than 2 occurrences", "arbitrary (symbolic) multi-byte text: UTF-8 decoding of symbolic bytes is intractable for CBMC here"],
)

REG["C30"]["harnesses"].update({
    "c30_footer_encode_decode": H(module="footer", enc=["CommitFooter::encode", "CommitFooter::decode"], sym="toc_len, 32-byte hash, generation", bound="every CommitFooter value"),
    "c30_footer_decode_arbitrary": H(module="footer", enc=["CommitFooter::decode", "CommitFooter::encode"], sym="57 bytes and the slice length 0..57", bound="every byte string up to 57 bytes"),
    "c15_time_index_roundtrip_3": H(module="time_index", enc=["time_index::append_track", "read_track", "calculate_checksum"], sym="3 entries (timestamp i64, frame id u64), any order, duplicates allowed",
                                    bound="3 entries; writer = 64-byte in-memory Read+Write+Seek object; blake3::Hasher as a ghost accumulator"),
    "c30_time_index_arbitrary_bytes": H(module="time_index", panic_is_violation=True, enc=["time_index::read_track"], sym="44 track bytes, file length 0..44, declared length 0..64", bound="tracks of <= 2 entries"),
})
REG["C30"]["assumptions"] = ["blake3::Hasher::{new,update,finalize} replaced by a ghost accumulator in the time-index harnesses (any deterministic stream hash)"]
REG["C30"]["cbmc_args"] = MEMCMP

REG["C15"] = dict(
    cbmc_args=MEMCMP,
    harnesses={
        "c15_time_index_roundtrip_3": H(module="time_index", enc=["time_index::append_track", "read_track"], sym="3 entries (timestamp i64 incl. negative/equal/extreme, frame id u64)", bound="3 entries"),
        "c15_time_index_roundtrip_1": H(module="time_index", enc=["time_index::append_track", "read_track"], sym="1 entry", bound="1 entry"),
    },
    assumptions=["blake3::Hasher replaced by a ghost accumulator"],
    out=["build_timeline over a Memvid handle (see DESIGN.md: added when the Memvid literal harnesses are in place)", "tracks of more than 3 entries"],
)

REG["C11"] = dict(
    cbmc_args=[],
    harnesses={
        "c11_replay_frame_ids_3": H(module="msearch_api", enc=["Memvid::get_replay_frame_ids"], sym="3 frames: timestamp (any i64) and status each; as_of_frame and as_of_ts (any Option)",
                                    bound="3-frame table; soundness and completeness of the time-travel candidate set"),
    },
    assumptions=["Memvid handle built field by field (no file); std RandomState fixed"],
    out=["the composition inside Memvid::search (intersection with date/sketch candidate sets, Tantivy) — lex-gated monolith, see DESIGN.md finding 3"],
)

REG["C12"] = dict(
    cbmc_args=[],
    harnesses={
        "c12_apply_acl_filter_and_rank": H(module="acl", replay="solver-only", enc=["Memvid::apply_acl_to_search_hits", "validate_enforce_acl_context", "AclFilterStats::record", "Memvid::frame_by_id"],
                                           sym="3 hits naming frames 0..2 or an unknown frame; per-frame allow/deny verdict (arbitrary); mode Enforce/Audit; context present/absent; tenant present/absent/unusable",
                                           bound="3 hits, 3 frames; evaluate_acl_metadata and normalize_acl_context replaced by arbitrary verdicts"),
        "c12_decision_core": H(module="acl", replay="solver-only", enc=["evaluate_acl_metadata"], sym="parse result over a 2-word vocabulary (tenant, visibility, one role/group/principal or none, or parse failure); caller context likewise",
                               bound="sets of <= 1 element over {x, y}; parse_acl_metadata replaced by an arbitrary parse result"),
    },
    assumptions=["metadata parsing (serde_json, case/quote normalisation) is NOT executed: replaced by arbitrary parse results — the normalisation layer is outside this claim"],
    out=["parse_acl_metadata / normalize_scalar / serde_json", "that every retrieval entry point calls the filter (search does; ask/vec paths are feature-gated monoliths)"],
)

REG["C15"]["harnesses"].update({
    "c15_timeline_with_index": H("thorough", module="timeline", replay="solver-only", enc=["timeline::build_timeline"], sym="3 frames: timestamp, current status; since, until (Option<i64>), reverse, limit 0..4",
                                 bound="3 document frames, all listed in the time index (sorted by (ts,id) as commit writes it); statuses may have changed since"),
    "c15_timeline_extracted_image": H("thorough", module="timeline", replay="solver-only", expect="known", enc=["timeline::build_timeline"], sym="as above", bound="3 frames, frame 2 is an ExtractedImage child that is not in the time index"),
})
REG["C15"]["assumptions"] += ["frame_preview and the time-index read are replaced by ghosts in the build_timeline harnesses (the read itself is c15_time_index_roundtrip)"]

REG["C27"] = dict(
    cbmc_args=[],
    harnesses={
        "c27_temporal_2cards": H(module="memories_track", enc=["MemoriesTrack::add_card", "get_at_time", "get_current", "get_cards", "SlotIndex::insert", "SlotIndex::get", "MemoryCard::effective_timestamp", "is_retracted"],
                                 sym="2 cards of one (entity, slot): event date, document date (Option<i64>), created_at, version relation (4 kinds); query time t (any i64)", bound="2 cards"),
        "c27_temporal_3cards": H("thorough", module="memories_track", enc=["MemoriesTrack::get_at_time", "get_current"], sym="3 cards as above, ties allowed", bound="3 cards"),
    },
    assumptions=["alloc::fmt::format stubbed (the slot key string is then the same for all cards, which are all of one entity/slot anyway); std RandomState fixed"],
    out=["cards of several entities/slots in one track", "persistence across commit/reopen (serde_json + zstd FFI)", "the logic mesh"],
)

REG["C39"] = dict(
    cbmc_args=[],
    harnesses={
        "c39_filter_small": H(module="sketch_track", enc=["build_term_filter", "term_filter_maybe_contains"], sym="0..3 arbitrary u64 token hashes", bound="16-byte filter, <= 3 tokens"),
        "c39_filter_medium": H(module="sketch_track", enc=["build_term_filter", "term_filter_maybe_contains"], sym="0..3 arbitrary u64 token hashes", bound="32-byte filter"),
        "c39_filter_large": H(module="sketch_track", enc=["build_term_filter", "term_filter_maybe_contains"], sym="0..3 arbitrary u64 token hashes", bound="64-byte filter"),
        "c39_entry_small_roundtrip": H(module="sketch_track", enc=["SketchEntrySmall::to_bytes", "from_bytes"], sym="all fields / all 32 bytes", bound="every small entry, every 32-byte image"),
        "c39_header_roundtrip": H(module="sketch_track", enc=["SketchTrackHeader::to_bytes", "from_bytes"], sym="all header fields / 24 bytes", bound="every header"),
    },
    assumptions=[],
    out=["the tokenizer (NFKC tables) and hash_token (blake3): the filter property is shown for ANY token hashes instead", "medium/large entry codecs and write/read_sketch_track over a file (HashMap-backed track)", "more than 3 tokens per filter (each token's bits are independent of the others)"],
)

REG["C25"] = dict(
    cbmc_args=MEMCMP,
    harnesses={
        "c25_unsigned_ticket_sequence": H(module="ticket", replay="solver-only", enc=["Memvid::apply_ticket", "ensure_writable"], sym="current sequence number (any i64 < MAX), ticket sequence (any i64), capacities, generation, whether the TOC rewrite fails",
                                          bound="one ticket application from ANY prior ticket state (inductive step: strictly increasing sequence over histories of any length)"),
        "c25_signed_ticket": H(module="ticket", replay="solver-only", enc=["Memvid::apply_signed_ticket"], sym="current/ticket sequence numbers, bound or unbound memory, memory ids (any u128), signature verdict (arbitrary)",
                               bound="one signed-ticket application from any prior state; Ed25519 verification replaced by an arbitrary verdict"),
    },
    assumptions=["rewrite_toc_footer / persist_header / sync_all replaced by ghosts recording call order and the sequence number they would persist (persistence across reopen then follows from the TOC codec, C30)",
                 "verify_ticket_signature and parse_ed25519_public_key_base64 replaced by an arbitrary verdict: Ed25519 itself (ed25519-dalek) is trusted"],
    out=["Ed25519 arithmetic", "ticket_message_bytes canonical payload", "unbind_memory (resets the sequence by design)"],
)

REG["C16"] = dict(
    cbmc_args=[],
    harnesses={
        "c16_parse_cursor": H(module="msearch_helpers", enc=["search::helpers::parse_cursor"], sym="cursor string of 0..3 characters over {digits, space, +, -, x}, present or absent; total_hits any usize", bound="cursor strings up to 3 characters"),
    },
    assumptions=[],
    out=["the page-slicing loops of the Tantivy and fallback search paths (lex-gated; Tantivy cannot be executed symbolically): only the cursor kernel is decided, the partition property itself is NOT", "cursor strings longer than 3 characters"],
)

STAGING = H(module="mutation", replay="solver-only", enc=["Memvid::with_staging_lock", "FileLock::acquire_with_mode", "FileLock::clone_handle"],
            sym="outcome of the commit body (Ok/Err), outcome of the rename (Ok/Err), pre-state generation/data_end/footer_offset/dirty, the values the body writes",
            bound="one commit through the copy-and-rename protocol; environment (fsync, staging file, rename, reopen, flock, WAL open) replaced by ghosts that log every call and carry inode identity in the descriptor number")
REG["C02"] = dict(
    cbmc_args=[],
    harnesses={"c02_staging_protocol": dict(STAGING)},
    assumptions=["CommitStaging::{prepare,copy_from,clone_file,commit,discard}, EmbeddedWal::open, OpenOptions::open, File::sync_all/try_clone, FileLock::lock_with_retry and OwnedFd::drop are ghosts; only the rename and the commit body can fail (prepare/copy/reopen/fsync failures are outside this harness)",
                 "POSIX: rename replaces the inode the path names; completed syscalls persist (process-crash model)"],
    out=["crash points between the individual writes of the commit body (needs whole-file decode by a later open)", "grow_wal_region / recover_wal in-place write windows", "atomic-write-file internals"],
)
REG["C17"] = dict(
    cbmc_args=[],
    harnesses={"c02_staging_protocol": dict(STAGING)},
    assumptions=["POSIX flock belongs to the open file description / inode; rename replaces the inode at the path. Under these two environment contracts 'at most one writer' reduces to the invariant checked here: after every commit (successful or rolled back) the handle's exclusive lock is on the inode the path currently names",
                 "FileLock::lock_with_retry (the fs2 flock call) replaced by a ghost that records which inode was locked"],
    out=["the kernel's lock implementation, NFS, two real processes", "lock acquisition retry loop"],
)
REG["C19"] = dict(
    cbmc_args=[],
    harnesses={"c02_staging_protocol": dict(STAGING)},
    assumptions=["as C02: the staging (temporary) file is resolved exactly once — renamed into place or discarded — on every modelled path"],
    out=["ensure_single_file sidecar detection (Path/format machinery)", "temp names chosen inside atomic-write-file/tempfile", "directory listings after real calls"],
)
