import os
"""Registry: which harnesses decide which property, with their bounds.

REG[<property id>] = {
  features:   cargo features added to --no-default-features for this property
  cbmc_args:  extra CBMC arguments (per-loop unwind sets)
  harnesses:  { name: { tier, module, enc, sym, bound, replay, ... } }
  assumptions / out: what is trusted / what lies outside the claim
}
tier "quick" harnesses run in both tiers; tier "thorough" only in the thorough tier.
module = file stem under /verif/harness (the native-replay slot).
replay = "native" (default: cargo kani playback on the real build) or
         "solver-only" (environment faults injected by stubs; cannot be provoked natively).
"""

COMMON_ASSUMPTIONS = [
    "Kani 0.68.0 / CBMC 6.11.0 / CaDiCaL are sound for the Rust MIR -> goto translation of the functions listed",
    "run with --no-memory-safety-checks: pointer-validity conditions of safe Rust are not checked; overflow, bounds, unwrap/expect/panic, unreachable and unwinding assertions are",
    "tracing macros have no effect on state (stubbed: __is_enabled -> false, register -> never, dispatch -> no-op, get_default -> Dispatch::none)",
    "a PASS covers only inputs inside each harness' stated bound; unwinding assertions are enabled so a too-small loop bound is reported, not truncated",
]

IO_ASSUMPTIONS = [
    "std::fs::File seek/read/write/flush/sync_all/sync_data/set_len/try_clone replaced by an in-memory disk with one shared offset (POSIX single-process semantics: a completed write is visible to later reads); I/O calls never fail",
    "blake3::hash replaced by a weak deterministic function (length, first, middle, last byte): the claim holds for any deterministic hash; collision resistance is outside the claim",
]

MEMCMP = ["--unwindset", "memcmp.0:34"]
# hashbrown's SSE2 group scan goes through Kani's simd_bitmask model (a 16-iteration loop); the ACL
# decision harnesses run with unwind 2 everywhere else. If the mangled name changes (new Kani), the
# unwinding assertion of that loop fails and the check reports INCONCLUSIVE, never a pass.
SIMD_BITMASK = ["--unwindset", "_RINvNtNtCs7f35Cc4Kq59_4kani6models10intrinsics17simd_bitmask_implaKj10_ECs7BAA163zT1P_11memvid_core.0:17,_RINvNvNtCs8xvirJzNMvV_4core3ptr25swap_nonoverlapping_bytes26swap_nonoverlapping_chunksKj8_ECscrgiVT8UQOZ_6object.0:17"]
# the in-memory disk (512 cells) is tracked cell by cell so that concretely-indexed reads stay concrete
FIELDS = ["--max-field-sensitivity-array-size", "520"]


def H(tier="quick", **kw):
    d = dict(tier=tier)
    d.update(kw)
    return d


REG = {}

REG["C05"] = dict(
    cbmc_args=MEMCMP,
    harnesses={
        "c05_step_append_1": H(module="wal", enc=["EmbeddedWal::append_entry", "write_record", "seek_and_write", "maybe_write_sentinel", "write_zero_header"],
                               sym="region size 1..2^26, region offset 0..8192, write head, pending bytes, sequence, checkpoint sequence, skip_sync, payload bytes",
                               bound="one append of a 1-byte payload from ANY state satisfying the log invariant (inductive step: stands for histories of any length)"),
        "c05_step_append_20": H(module="wal", enc=["EmbeddedWal::append_entry", "write_record", "maybe_write_sentinel", "write_zero_header"],
                                sym="as c05_step_append_1", bound="one append of a 20-byte payload from any invariant state"),
        "c05_step_append_300": H("thorough", module="wal", enc=["EmbeddedWal::append_entry", "write_record", "maybe_write_sentinel", "write_zero_header"],
                                 sym="as c05_step_append_1", bound="one append of a 300-byte payload from any invariant state"),
        "c05_step_checkpoint": H(module="wal", enc=["EmbeddedWal::record_checkpoint", "maybe_write_sentinel", "write_zero_header"],
                                 sym="as c05_step_append_1 plus the header", bound="one checkpoint from any invariant state"),
        "c05_step_scan_empty": H("thorough", module="wal", enc=["EmbeddedWal::pending_records", "records_after", "initialise_sentinel", "maybe_write_sentinel"],
                           sym="as c05_step_append_1", bound="one pending_records() from any invariant state with empty log; scan_records itself replaced by a ghost returning the chain the invariant describes (records aggregated)"),
        "c05_step_open_empty": H("thorough", module="wal", enc=["EmbeddedWal::open", "open_internal", "initialise_sentinel"], replay="solver-only",
                           sym="as c05_step_append_1 plus arbitrary header.wal_checkpoint_pos", bound="reopen-from-header on any invariant log with empty log; scan ghosted"),
        "c05_step_scan_old_only": H(module="wal", enc=["EmbeddedWal::pending_records", "records_after", "initialise_sentinel", "maybe_write_sentinel"],
                           sym="as c05_step_append_1", bound="one pending_records() from any invariant state with only checkpointed records; scan_records itself replaced by a ghost returning the chain the invariant describes (records aggregated)"),
        "c05_step_open_old_only": H(module="wal", enc=["EmbeddedWal::open", "open_internal", "initialise_sentinel"], replay="solver-only",
                           sym="as c05_step_append_1 plus arbitrary header.wal_checkpoint_pos", bound="reopen-from-header on any invariant log with only checkpointed records; scan ghosted"),
        "c05_step_scan_pending_only": H(module="wal", enc=["EmbeddedWal::pending_records", "records_after", "initialise_sentinel", "maybe_write_sentinel"],
                           sym="as c05_step_append_1", bound="one pending_records() from any invariant state with only pending records; scan_records itself replaced by a ghost returning the chain the invariant describes (records aggregated)"),
        "c05_step_open_pending_only": H(module="wal", enc=["EmbeddedWal::open", "open_internal", "initialise_sentinel"], replay="solver-only",
                           sym="as c05_step_append_1 plus arbitrary header.wal_checkpoint_pos", bound="reopen-from-header on any invariant log with only pending records; scan ghosted"),
        "c05_step_scan_old_and_pending": H(module="wal", enc=["EmbeddedWal::pending_records", "records_after", "initialise_sentinel", "maybe_write_sentinel"],
                           sym="as c05_step_append_1", bound="one pending_records() from any invariant state with checkpointed and pending records; scan_records itself replaced by a ghost returning the chain the invariant describes (records aggregated)"),
        "c05_step_open_old_and_pending": H(module="wal", enc=["EmbeddedWal::open", "open_internal", "initialise_sentinel"], replay="solver-only",
                           sym="as c05_step_append_1 plus arbitrary header.wal_checkpoint_pos", bound="reopen-from-header on any invariant log with checkpointed and pending records; scan ghosted"),
        "c05_record_layout": H(module="wal", enc=["EmbeddedWal::open", "append_entry", "write_record", "maybe_write_sentinel"],
                               sym="checkpoint sequence, 12 payload bytes", bound="200-byte zeroed region, one append of 12 bytes: every byte of the record image and of the sentinel checked"),
        "c05_scan_three_records": H(module="wal", enc=["EmbeddedWal::scan_records"],
                                    sym="first sequence number, payload bytes", bound="250-byte region image holding 3 well-formed records (60/49/60 bytes), zeros after; real scan_records called directly"),
        "c05_scan_ignores_stale_bytes": H(module="wal", enc=["EmbeddedWal::scan_records"], sym="first sequence, payload bytes, 8 stale bytes after the sentinel",
                                          bound="200-byte region, 2 records, zero sentinel, arbitrary stale bytes after it"),
        "c05_scan_short_tail": H(module="wal", enc=["EmbeddedWal::scan_records"], sym="first sequence, payload bytes, 8 arbitrary tail bytes",
                                 bound="128-byte region, 2 records ending at 109 (19-byte tail with arbitrary bytes)"),
        "c05_scan_exact_fit": H(module="wal", enc=["EmbeddedWal::scan_records"], sym="first sequence, payload bytes",
                                bound="109-byte region filled exactly by 2 records"),
        "c05_scan_empty": H(module="wal", enc=["EmbeddedWal::scan_records"], sym="8 stale bytes",
                            bound="100-byte region starting with a zero header followed by stale bytes: nothing is returned"),
    },
    assumptions=IO_ASSUMPTIONS + [
        "inductive-step harnesses: the data-less disk records (position, length, all-zero) of every write; the invariant is [0,wh-pb) old records, [wh-pb,wh) pending records, sentinel or <48-byte tail at wh; records are > 48 bytes; pending aggregated into one record",
        "payload lengths are concrete per harness (1, 20, 300): a symbolic length becomes a symbolic allocation size CBMC cannot handle; all branch conditions of wal.rs are linear in (write_head, entry_size, pending_bytes, region_size, 48), which are symbolic",
    ],
    out=["regions larger than 64 MiB", "payload lengths other than 1/20/300 in the step harnesses (geometry is symbolic instead)", "I/O errors", "empty payloads (excluded by the property's quantifier)", "debug_verify_header (tracing disabled)"],
)

REG["C30"] = dict(
    cbmc_args=MEMCMP,
    harnesses={
        "c30_header_encode_decode": H(module="header", enc=["HeaderCodec::encode", "HeaderCodec::decode"], sym="all 8 header fields (magic, version, offsets, sizes, sequence, 32-byte checksum)",
                                      bound="every Header value; 4 KiB image"),
        "c30_header_decode_arbitrary": H(module="header", enc=["HeaderCodec::decode", "HeaderCodec::encode", "extract_array"], sym="all 4096 bytes of the header image",
                                         bound="every 4096-byte image"),
    },
    assumptions=[],
    out=["TOC (bincode/serde of the full struct) — see DESIGN.md", "legacy-lock clearing in HeaderCodec::read (C18)"],
)

REG["C13"] = dict(
    cbmc_args=MEMCMP,
    harnesses={
        "c13_topk_3docs": H(module="vec", enc=["VecIndex::search (Uncompressed)", "l2_distance"], sym="3 arbitrary non-NaN distances (incl. infinities, ties, signed zeros), k in 0..4",
                            bound="3 documents, k <= 4; distance function replaced by an arbitrary table (any distance function)"),
        "c13_topk_4docs": H(module="vec", enc=["VecIndex::search (Uncompressed)"], sym="4 arbitrary non-NaN distances, k in 0..5", bound="4 documents, k <= 5"),
        "c13_topk_5docs": H("thorough", module="vec", enc=["VecIndex::search (Uncompressed)"], sym="5 arbitrary non-NaN distances, k in 0..6", bound="5 documents, k <= 6"),
        "c13_topk_6docs": H("thorough", module="vec", enc=["VecIndex::search (Uncompressed)"], sym="6 arbitrary non-NaN distances, k in 0..7", bound="6 documents, k <= 7"),
        "c13_empty_query": H(module="vec", enc=["VecIndex::search"], sym="-", bound="empty query vector"),
    },
    assumptions=["crate::simd::l2_distance_simd replaced by a table of arbitrary non-NaN distances: the ranking logic must be right for any distance function; the arithmetic is C38"],
    out=["NaN distances", "PQ (Compressed) and HNSW representations (feature-gated, >= 1000 vectors)", "more than 4 documents"],
)

REG["C14"] = dict(
    cbmc_args=MEMCMP,
    harnesses={
        "c14_remove_entries_embedding_for": H(module="vec", enc=["VecIndex::remove", "VecIndex::entries", "VecIndex::embedding_for"], sym="3 frame ids (duplicates allowed), 3 embedding values, the id to remove",
                                              bound="3 one-dimensional documents"),
    },
    assumptions=[],
    out=["the representation switch at 1000 vectors; HNSW/PQ variants (entries() is empty there by construction) — known blind spot", "build_vec_artifact composition (see C14 builders harness when present)"],
)

REG["C38"] = dict(
    cbmc_args=MEMCMP,
    harnesses={
        "c38_zero_on_equal_len4": H(module="simd", enc=["simd::l2_distance_squared_simd (scalar build)", "l2_distance_simd"], sym="4 finite f32 (bit-precise)", bound="length 4"),
        "c38_zero_on_equal_len9": H(module="simd", enc=["simd::l2_distance_squared_simd (scalar build)"], sym="9 finite f32", bound="length 9 (crosses the 8-lane boundary of the accelerated build)"),
        "c38_non_negative_len2": H(module="simd", enc=["simd::l2_distance_squared_simd"], sym="2x2 finite f32", bound="length 2"),
        "c38_symmetric_len1": H("thorough", module="simd", enc=["simd::l2_distance_squared_simd"], sym="2 finite f32", bound="length 1"),
        "c38_symmetric_len2": H("experimental", module="simd", enc=["simd::l2_distance_squared_simd"], sym="2x2 finite f32", bound="length 2"),
        "c38_two_hot_len7": H(module="simd", enc=["simd::l2_distance_squared_simd"], sym="two positions, two integer differences in [-8, 8]", bound="length 7 (remainder only)"),
        "c38_two_hot_len9": H(module="simd", enc=["simd::l2_distance_squared_simd"], sym="as above", bound="length 9 (one 8-lane chunk + remainder 1)"),
        "c38_two_hot_len16": H(module="simd", enc=["simd::l2_distance_squared_simd"], sym="as above", bound="length 16 (two chunks, no remainder)"),
        "c38_two_hot_len23": H(module="simd", enc=["simd::l2_distance_squared_simd"], sym="as above", bound="length 23 (two chunks + remainder 7)"),
        "c38_simd_two_hot_len7": H(module="simd", features=["simd"], enc=["simd::l2_distance_squared_simd (simd feature build: wide::f32x8 over SSE, the default configuration)"], sym="two distinct positions, two integer differences in [-8, 8]", bound="length 7 (remainder loop only): result must be exactly v1^2+v2^2 in both argument orders"),
        "c38_simd_two_hot_len9": H(module="simd", features=["simd"], enc=["simd::l2_distance_squared_simd (simd feature build: wide::f32x8 over SSE, the default configuration)"], sym="two distinct positions, two integer differences in [-8, 8]", bound="length 9 (one 8-lane chunk + remainder 1): result must be exactly v1^2+v2^2 in both argument orders"),
        "c38_simd_two_hot_len16": H(module="simd", features=["simd"], enc=["simd::l2_distance_squared_simd (simd feature build: wide::f32x8 over SSE, the default configuration)"], sym="two distinct positions, two integer differences in [-8, 8]", bound="length 16 (two chunks, no remainder): result must be exactly v1^2+v2^2 in both argument orders"),
        "c38_simd_two_hot_len23": H(module="simd", features=["simd"], enc=["simd::l2_distance_squared_simd (simd feature build: wide::f32x8 over SSE, the default configuration)"], sym="two distinct positions, two integer differences in [-8, 8]", bound="length 23 (two chunks + remainder 7): result must be exactly v1^2+v2^2 in both argument orders"),
        "c38_simd_zero_on_equal_len4": H(module="simd", features=["simd"], enc=["simd::l2_distance_squared_simd (simd feature build: wide::f32x8 over SSE, the default configuration)"], sym="4 finite f32 (bit-precise)", bound="length 4"),
        "c38_simd_zero_on_equal_len9": H(module="simd", features=["simd"], enc=["simd::l2_distance_squared_simd (simd feature build: wide::f32x8 over SSE, the default configuration)"], sym="9 finite f32", bound="length 9"),
        "c38_simd_non_negative_len2": H(module="simd", features=["simd"], enc=["simd::l2_distance_squared_simd (simd feature build: wide::f32x8 over SSE, the default configuration)"], sym="2x2 finite f32", bound="length 2"),
        "c38_simd_non_negative_len8": H("thorough", module="simd", features=["simd"], enc=["simd::l2_distance_squared_simd (simd feature build: wide::f32x8 over SSE, the default configuration)"], sym="2x8 finite f32", bound="length 8 (one full 8-lane chunk)"),
        "c38_empty_vectors": H(module="simd", enc=["simd::l2_distance_simd", "l2_distance_squared_simd"], sym="-", bound="length 0"),
        "c38_exact_domain_len2": H("experimental", module="simd", enc=["simd::l2_distance_squared_simd"], sym="2x2 integers in [-1024, 1024]", bound="length 2 on the exactness domain (every intermediate exact in f32)"),
    },
    assumptions=["c38_simd_* harnesses are built with --features simd (the accelerated code users run by default): wide::f32x8 executes as compiled, with the three SSE intrinsics it lowers to on this target (_mm_sub_ps, _mm_add_ps, _mm_mul_ps) replaced by IEEE lane-wise models, because Kani attaches an integer-overflow check to float simd_sub/add/mul; AVX code paths of `wide` (not compiled for the baseline x86_64 target) are outside the claim", "the other harnesses are built with --no-default-features (scalar fallback)."],
    out=["closeness of accelerated and scalar results on arbitrary floats (float sums in different orders: not decided; the two-hot harnesses decide it on inputs where every intermediate is exact)", "lengths other than 0, 2, 4, 7, 8, 9, 16, 23", "non-finite inputs", "AVX builds of the wide crate"],
)

# ---------------------------------------------------------------------------
NOT_APPLICABLE = {}

REG["C37"] = dict(
    cbmc_args=MEMCMP,
    harnesses={
        "c37_normalize_2_moderate": H("thorough", module="adaptive", enc=["normalize_scores"], sym="2 finite f32 with |x| <= 1e30 (bit-precise)", bound="2 scores, magnitude <= 1e30"),
        "c37_normalize_2_extreme": H("thorough", module="adaptive", enc=["normalize_scores"], sym="2 finite f32, full range", bound="2 scores, any finite value (max - min may overflow)"),
        "c37_normalize_3_moderate": H("experimental", module="adaptive", enc=["normalize_scores"], sym="3 finite f32 with |x| <= 1e30", bound="3 scores"),
        "c37_absolute_cutoff_4": H(module="adaptive", enc=["find_absolute_cutoff"], sym="4 finite scores, list length 0..4, threshold (any f32 incl. NaN/inf), min_results (any usize)", bound="<= 4 scores"),
        "c37_absolute_cutoff_6": H("thorough", module="adaptive", enc=["find_absolute_cutoff"], sym="6 finite scores, list length 0..6, threshold (any f32 incl. NaN/inf), min_results (any usize)", bound="<= 6 scores"),
        "c37_absolute_cutoff_8": H("thorough", module="adaptive", enc=["find_absolute_cutoff"], sym="8 finite scores, list length 0..8, threshold (any f32 incl. NaN/inf), min_results (any usize)", bound="<= 8 scores"),
        "c37_dispatch_raw_3": H("experimental", module="adaptive", enc=["find_adaptive_cutoff", "find_absolute_cutoff"], sym="3 finite scores, length 0..3, strategy absolute or relative with an arbitrary f32 parameter, min_results",
                                bound="<= 3 scores, normalize_scores = false"),
        "c37_dispatch_absolute_2": H("thorough", module="adaptive", enc=["find_adaptive_cutoff", "find_absolute_cutoff"], sym="2 finite scores, length 0..2, arbitrary threshold, min_results", bound="<= 2 scores, absolute strategy through the dispatcher"),
        "c37_dispatch_relative_2": H("experimental", module="adaptive", enc=["find_adaptive_cutoff", "find_absolute_cutoff"], sym="2 finite scores, length 0..2, arbitrary ratio, min_results", bound="<= 2 scores, relative strategy (one float multiplication)"),
        "c37_dispatch_cliff_2": H("thorough", module="adaptive", enc=["find_adaptive_cutoff", "find_cliff_cutoff"], sym="2 finite scores, arbitrary max_drop_ratio, min_results", bound="<= 2 scores (one float division)"),
        "c37_dispatch_combined_2": H("thorough", module="adaptive", enc=["find_adaptive_cutoff", "find_combined_cutoff"], sym="2 finite scores, arbitrary parameters, min_results", bound="<= 2 scores (one float division)"),
        "c37_elbow_bounds_3": H("experimental", module="adaptive", enc=["find_elbow_cutoff"], sym="3 scores |x| <= 1e6, sensitivity 0..100, min_results 0..2", bound="exactly 3 scores"),
    },
    assumptions=["alloc::fmt::format stubbed to an empty string in the cut-off harnesses (the reason string is not part of the property)"],
    out=["lists longer than 4", "normalisation combined with a strategy in one query (float division makes the joint query intractable; the two halves are checked separately)", "NaN scores (excluded by the property)"],
)

REG["C35"] = dict(
    cbmc_args=MEMCMP,
    harnesses={
        "c35_ascii_sentences": H(module="lex", panic_is_violation=True, enc=["compute_snippet_slices", "sentence_start_before", "sentence_end_after", "prev_char_boundary", "next_char_boundary", "advance_boundary"],
                                       sym="one occurrence with arbitrary usize bounds (< 2^63); window 1..16; max >= 1", bound="fixed 5-byte ASCII text 'a. b.', <= 2 occurrences"),
        "c35_ascii_newline": H(module="lex", panic_is_violation=True, enc=["compute_snippet_slices", "sentence_start_before", "sentence_end_after", "prev_char_boundary", "next_char_boundary", "advance_boundary"],
                                       sym="one occurrence with arbitrary usize bounds (< 2^63); window 1..16; max >= 1", bound="fixed 5-byte ASCII text 'ab\\ncd', <= 2 occurrences"),
        "c35_ascii_no_terminator": H(module="lex", panic_is_violation=True, enc=["compute_snippet_slices", "sentence_start_before", "sentence_end_after", "prev_char_boundary", "next_char_boundary", "advance_boundary"],
                                       sym="one occurrence with arbitrary usize bounds (< 2^63); window 1..16; max >= 1", bound="fixed 5-byte ASCII text 'abcde', <= 2 occurrences"),
        "c35_ascii_two_occurrences": H("experimental", module="lex", panic_is_violation=True, enc=["compute_snippet_slices"], sym="two occurrences with bounds 0..8, window 1..4, max 1..3", bound="fixed text 'a. b.'"),
        "c35_multibyte_one_occurrence": H(module="lex", panic_is_violation=True, enc=["compute_snippet_slices"], sym="one occurrence (arbitrary usize bounds < 2^63), window 1..16, max >= 1",
                                          bound="fixed 9-byte text with 1-, 2- and 3-byte characters"),
        "c35_two_snippets_long_text": H("experimental", module="lex", panic_is_violation=True, enc=["compute_snippet_slices"], sym="two occurrences with bounds 0..64, window 1..4, max 1..3", bound="fixed 26-byte text"),
        "c35_window_zero": H("experimental", module="lex", panic_is_violation=True, expect="known", enc=["compute_snippet_slices"], sym="0..1 occurrence", bound="text 'a.b', window = 0"),
        "c35_max_zero": H(module="lex", panic_is_violation=True, expect="known", enc=["compute_snippet_slices"], sym="1 occurrence", bound="text 'a.b', max_snippets = 0"),
        "c35_huge_offsets": H(module="lex", panic_is_violation=True, expect="known", enc=["compute_snippet_slices"], sym="1 occurrence and window over the full usize range", bound="3-byte text"),
    },
    assumptions=["main harnesses assume window >= 1, max >= 1 and offsets < 2^63 — the domain the two callers (search fallback and Tantivy path, which clamp the window to >= 80 and pass in-bounds matches) can produce; the excluded corners are probed separately and recorded as known findings"],
    out=["texts longer than 32 bytes", "more than 2 occurrences", "arbitrary (symbolic) multi-byte text: UTF-8 decoding of symbolic bytes is intractable for CBMC here"],
)

REG["C30"]["harnesses"].update({
    "c30_footer_encode_decode": H(module="footer", enc=["CommitFooter::encode", "CommitFooter::decode"], sym="toc_len, 32-byte hash, generation", bound="every CommitFooter value"),
    "c30_footer_decode_arbitrary": H(module="footer", enc=["CommitFooter::decode", "CommitFooter::encode"], sym="57 bytes and the slice length 0..57", bound="every byte string up to 57 bytes"),
    "c15_time_index_roundtrip_3": H(module="time_index", enc=["time_index::append_track", "read_track", "calculate_checksum"], sym="3 entries (timestamp i64, frame id u64), any order, duplicates allowed",
                                    bound="3 entries; writer = 64-byte in-memory Read+Write+Seek object; blake3::Hasher as a ghost accumulator"),
    "c30_time_index_arbitrary_0": H(module="time_index", panic_is_violation=True, enc=["time_index::read_track"], sym="magic and entry bytes, declared length (any u64)", bound="declared entry count 0, 12-byte file"),
    "c30_time_index_arbitrary_1": H(module="time_index", panic_is_violation=True, enc=["time_index::read_track"], sym="magic and entry bytes, declared length (any u64)", bound="declared entry count 1, 28-byte file"),
    "c30_time_index_arbitrary_2": H(module="time_index", panic_is_violation=True, enc=["time_index::read_track"], sym="magic and entry bytes, declared length (any u64)", bound="declared entry count 2, 44-byte file"),
    "c30_time_index_truncated_2": H(module="time_index", panic_is_violation=True, enc=["time_index::read_track"], sym="magic and entry bytes, declared length (any u64)", bound="declared entry count 2, file truncated to 43 bytes"),
})
REG["C30"]["assumptions"] = ["blake3::Hasher::{new,update,finalize} replaced by a ghost accumulator in the time-index harnesses (any deterministic stream hash)"]
REG["C30"]["cbmc_args"] = MEMCMP

REG["C15"] = dict(
    cbmc_args=MEMCMP,
    harnesses={
        "c15_time_index_roundtrip_3": H(module="time_index", enc=["time_index::append_track", "read_track"], sym="3 entries (timestamp i64 incl. negative/equal/extreme, frame id u64)", bound="3 entries"),
        "c15_time_index_roundtrip_1": H(module="time_index", enc=["time_index::append_track", "read_track"], sym="1 entry", bound="1 entry"),
    },
    assumptions=["blake3::Hasher replaced by a ghost accumulator"],
    out=["build_timeline over a Memvid handle (see DESIGN.md: added when the Memvid literal harnesses are in place)", "tracks of more than 3 entries"],
)

REG["C11"] = dict(
    cbmc_args=MEMCMP,
    harnesses={
        "c11_replay_frame_ids_3": H(module="msearch_api", enc=["Memvid::get_replay_frame_ids"], sym="3 frames: timestamp (any i64) and status each; as_of_frame and as_of_ts (any Option)",
                                    bound="3-frame table; soundness and completeness of the time-travel candidate set"),
        "c11_replay_frame_ids_4": H("thorough", module="msearch_api", enc=["Memvid::get_replay_frame_ids"], sym="4 frames: timestamp (any i64) and status each; as_of_frame and as_of_ts (any Option)", bound="4-frame table"),
        "c11_replay_frame_ids_5": H("experimental", module="msearch_api", enc=["Memvid::get_replay_frame_ids"], sym="5 frames: timestamp (any i64) and status each; as_of_frame and as_of_ts (any Option)", bound="5-frame table (does not finish: > 16 GB after 400 s, stopped)"),
    },
    assumptions=["Memvid handle built field by field (no file); std RandomState fixed"],
    out=["the composition inside Memvid::search (intersection with date/sketch candidate sets, Tantivy) — lex-gated monolith, see DESIGN.md finding 3"],
)

REG["C12"] = dict(
    cbmc_args=MEMCMP,
    harnesses={
        "c12_apply_acl_filter_and_rank": H("experimental", module="acl", replay="solver-only", enc=["Memvid::apply_acl_to_search_hits", "validate_enforce_acl_context", "AclFilterStats::record", "Memvid::frame_by_id"],
                                           sym="3 hits naming frames 0..2 or an unknown frame; per-frame allow/deny verdict (arbitrary); mode Enforce/Audit; context present/absent; tenant present/absent/unusable",
                                           bound="3 hits, 3 frames; evaluate_acl_metadata and normalize_acl_context replaced by arbitrary verdicts"),
        "c12_decision_tenant_and_visibility": H(module="acl", replay="solver-only", enc=["evaluate_acl_metadata"], sym="parse success, frame tenant, caller tenant, visibility, caller has a subject id or not",
                               bound="empty role/group/principal sets on both sides (no string hashing); parse_acl_metadata replaced by that parse result"),
        "c12_decision_cross_namespace": H(module="acl", replay="solver-only", cbmc=SIMD_BITMASK, enc=["evaluate_acl_metadata"], sym="parse success, frame tenant, caller tenant, visibility",
                               bound="the frame allows group 'r' and role 'g', the caller has role 'r' and group 'g' (same words in the other namespace): must be denied unless public"),
        "c12_decision_no_match": H(module="acl", replay="solver-only", cbmc=SIMD_BITMASK, enc=["evaluate_acl_metadata"], sym="parse success, frame tenant, caller tenant, visibility (public/restricted)",
                               bound="concrete one-element ACL sets (no role/group/principal of the caller is listed); parse_acl_metadata replaced by that parse result"),
        "c12_decision_role_match": H(module="acl", replay="solver-only", cbmc=SIMD_BITMASK, enc=["evaluate_acl_metadata"], sym="parse success, frame tenant, caller tenant, visibility (public/restricted)",
                               bound="concrete one-element ACL sets (the caller's role is listed); parse_acl_metadata replaced by that parse result"),
        "c12_decision_group_match": H(module="acl", replay="solver-only", cbmc=SIMD_BITMASK, enc=["evaluate_acl_metadata"], sym="parse success, frame tenant, caller tenant, visibility (public/restricted)",
                               bound="concrete one-element ACL sets (the caller's group is listed); parse_acl_metadata replaced by that parse result"),
        "c12_decision_principal_match": H(module="acl", replay="solver-only", cbmc=SIMD_BITMASK, enc=["evaluate_acl_metadata"], sym="parse success, frame tenant, caller tenant, visibility (public/restricted)",
                               bound="concrete one-element ACL sets (the caller's principal is listed); parse_acl_metadata replaced by that parse result"),
    },
    assumptions=["std SipHash (DefaultHasher write/write_str/finish) replaced by a constant hash in the c12_decision_*_match/cross_namespace harnesses: set semantics do not depend on the hash function, every key is told apart by == alone", "metadata parsing (serde_json, case/quote normalisation) is NOT executed: replaced by arbitrary parse results — the normalisation layer is outside this claim"],
    out=["parse_acl_metadata / normalize_scalar / serde_json", "that every retrieval entry point calls the filter (search does; ask/vec paths are feature-gated monoliths)"],
)

REG["C15"]["harnesses"].update({
    "c15_timeline_window_both_bounds_1": H("experimental", module="timeline", replay="solver-only", enc=["timeline::build_timeline"], sym="frame timestamp, since, until (any i64)", bound="1 active frame, no time-index manifest (entries come from the TOC), forward, no limit; frame_preview ghosted, Frame::clone replaced by a scalar copy"),
    "c15_timeline_window_one_bound_1": H("experimental", module="timeline", replay="solver-only", enc=["timeline::build_timeline"], sym="frame timestamp, the bound, which bound is present", bound="1 active frame, exactly one of since/until"),
    "c15_timeline_window_both_bounds_2": H("experimental", module="timeline", replay="solver-only", enc=["timeline::build_timeline"], sym="2 frame timestamps, since, until", bound="2 active frames, both bounds present"),
    "c15_timeline_with_index": H("experimental", module="timeline", replay="solver-only", enc=["timeline::build_timeline"], sym="3 frames: timestamp, current status; since, until (Option<i64>), reverse, limit 0..4",
                                 bound="3 document frames, all listed in the time index (sorted by (ts,id) as commit writes it); statuses may have changed since"),
    "c15_timeline_extracted_image": H("experimental", module="timeline", replay="solver-only", expect="known", enc=["timeline::build_timeline"], sym="as above", bound="3 frames, frame 2 is an ExtractedImage child that is not in the time index"),
})
REG["C15"]["assumptions"] += ["frame_preview and the time-index read are replaced by ghosts in the build_timeline harnesses (the read itself is c15_time_index_roundtrip)"]

REG["C27"] = dict(
    cbmc_args=MEMCMP,
    harnesses={
        "c27_temporal_2cards": H("experimental", module="memories_track", cbmc=SIMD_BITMASK, enc=["MemoriesTrack::add_card", "get_at_time", "get_current", "get_cards", "SlotIndex::insert", "SlotIndex::get", "MemoryCard::effective_timestamp", "is_retracted"],
                                 sym="2 cards of one (entity, slot): event date, document date (Option<i64>), created_at, version relation (4 kinds); query time t (any i64)", bound="2 cards"),
        "c27_temporal_3cards": H("thorough", module="memories_track", enc=["MemoriesTrack::get_at_time", "get_current"], sym="3 cards as above, ties allowed", bound="3 cards"),
    },
    assumptions=["alloc::fmt::format stubbed (the slot key string is then the same for all cards, which are all of one entity/slot anyway); std RandomState fixed"],
    out=["cards of several entities/slots in one track", "persistence across commit/reopen (serde_json + zstd FFI)", "the logic mesh"],
)

REG["C39"] = dict(
    cbmc_args=MEMCMP,
    harnesses={
        "c39_filter_small": H(module="sketch_track", enc=["build_term_filter", "term_filter_maybe_contains"], sym="0..3 arbitrary u64 token hashes", bound="16-byte filter, <= 3 tokens"),
        "c39_filter_medium": H(module="sketch_track", enc=["build_term_filter", "term_filter_maybe_contains"], sym="0..3 arbitrary u64 token hashes", bound="32-byte filter"),
        "c39_filter_large": H(module="sketch_track", enc=["build_term_filter", "term_filter_maybe_contains"], sym="0..3 arbitrary u64 token hashes", bound="64-byte filter"),
        "c39_entry_small_roundtrip": H(module="sketch_track", enc=["SketchEntrySmall::to_bytes", "from_bytes"], sym="all fields / all 32 bytes", bound="every small entry, every 32-byte image"),
        "c39_header_roundtrip": H(module="sketch_track", enc=["SketchTrackHeader::to_bytes", "from_bytes"], sym="all header fields / 24 bytes", bound="every header"),
    },
    assumptions=[],
    out=["the tokenizer (NFKC tables) and hash_token (blake3): the filter property is shown for ANY token hashes instead", "medium/large entry codecs and write/read_sketch_track over a file (HashMap-backed track)", "more than 3 tokens per filter (each token's bits are independent of the others)"],
)

REG["C25"] = dict(
    cbmc_args=MEMCMP,
    harnesses={
        "c25_unsigned_ticket_sequence": H(module="ticket", replay="solver-only", enc=["Memvid::apply_ticket", "ensure_writable"], sym="current sequence number (any i64 < MAX), ticket sequence (any i64), capacities, generation, whether the TOC rewrite fails",
                                          bound="one ticket application from ANY prior ticket state (inductive step: strictly increasing sequence over histories of any length)"),
        "c25_signed_ticket": H(module="ticket", replay="solver-only", enc=["Memvid::apply_signed_ticket"], sym="current/ticket sequence numbers, bound or unbound memory, memory ids (any u128), signature verdict (arbitrary)",
                               bound="one signed-ticket application from any prior state; Ed25519 verification replaced by an arbitrary verdict"),
    },
    assumptions=["rewrite_toc_footer / persist_header / sync_all replaced by ghosts recording call order and the sequence number they would persist (persistence across reopen then follows from the TOC codec, C30)",
                 "verify_ticket_signature and parse_ed25519_public_key_base64 replaced by an arbitrary verdict: Ed25519 itself (ed25519-dalek) is trusted"],
    out=["Ed25519 arithmetic", "ticket_message_bytes canonical payload", "unbind_memory (resets the sequence by design)"],
)

REG["C16"] = dict(
    cbmc_args=MEMCMP,
    harnesses={
        "c16_parse_cursor": H(module="msearch_helpers", enc=["search::helpers::parse_cursor"], sym="cursor string of 0..3 characters over {digits, space, +, -, x}, present or absent; total_hits any usize", bound="cursor strings up to 3 characters"),
        "c16_parse_cursor_5": H("thorough", module="msearch_helpers", enc=["search::helpers::parse_cursor"], sym="cursor string of 0..5 characters over {digits, space, +, -, x}, present or absent; total_hits any usize", bound="cursor strings up to 5 characters"),
    },
    assumptions=[],
    out=["the page-slicing loops of the Tantivy and fallback search paths (lex-gated; Tantivy cannot be executed symbolically): only the cursor kernel is decided, the partition property itself is NOT", "cursor strings longer than 3 characters"],
)

STAGING = H(module="mutation", replay="solver-only", enc=["Memvid::with_staging_lock", "FileLock::acquire_with_mode", "FileLock::clone_handle"],
            sym="outcome of the commit body (Ok/Err), outcome of the rename (Ok/Err), pre-state generation/data_end/footer_offset/dirty, the values the body writes",
            bound="one commit through the copy-and-rename protocol; environment (fsync, staging file, rename, reopen, flock, WAL open) replaced by ghosts that log every call and carry inode identity in the descriptor number")
REG["C02"] = dict(
    cbmc_args=MEMCMP,
    harnesses={"c02_staging_protocol": dict(STAGING)},
    assumptions=["CommitStaging::{prepare,copy_from,clone_file,commit,discard}, EmbeddedWal::open, OpenOptions::open, File::sync_all/try_clone, FileLock::lock_with_retry and OwnedFd::drop are ghosts; only the rename and the commit body can fail (prepare/copy/reopen/fsync failures are outside this harness)",
                 "POSIX: rename replaces the inode the path names; completed syscalls persist (process-crash model)"],
    out=["crash points between the individual writes of the commit body (needs whole-file decode by a later open)", "grow_wal_region / recover_wal in-place write windows", "atomic-write-file internals"],
)
REG["C17"] = dict(
    cbmc_args=MEMCMP,
    harnesses={"c02_staging_protocol": dict(STAGING)},
    assumptions=["POSIX flock belongs to the open file description / inode; rename replaces the inode at the path. Under these two environment contracts 'at most one writer' reduces to the invariant checked here: after every commit (successful or rolled back) the handle's exclusive lock is on the inode the path currently names",
                 "FileLock::lock_with_retry (the fs2 flock call) replaced by a ghost that records which inode was locked"],
    out=["the kernel's lock implementation, NFS, two real processes", "lock acquisition retry loop"],
)
REG["C19"] = dict(
    cbmc_args=MEMCMP,
    harnesses={"c02_staging_protocol": dict(STAGING)},
    assumptions=["as C02: the staging (temporary) file is resolved exactly once — renamed into place or discarded — on every modelled path"],
    out=["ensure_single_file sidecar detection (Path/format machinery)", "temp names chosen inside atomic-write-file/tempfile", "directory listings after real calls"],
)

FOOTER = H(module="mutation", replay="solver-only", enc=["Memvid::rewrite_toc_footer", "CommitFooter::encode", "CommitFooter::decode"], sym="generation, 5 TOC bytes",
           bound="footer at 100, 50-byte WAL, previous length 300 (file shrinks to the footer end); TOC serialisation replaced by an arbitrary 5-byte blob")
FOOTER2 = H(module="mutation", replay="solver-only", enc=["Memvid::rewrite_toc_footer"], sym="generation, 5 TOC bytes", bound="footer at 20, 200-byte WAL from 16 (length clamped to the WAL end)")
RECOVER1 = H(module="mutation", replay="solver-only", enc=["Memvid::recover_wal"], sym="checkpoint sequence, pending-insert counter, log region size (64 KiB - 64 MiB), pending bytes, header checkpoint position (any value inside the region, incl. wrapped logs)", bound="1 pending record, 1 committed frame; two consecutive recoveries")
RECOVER_ASSUME = ["EmbeddedWal::records_after / record_checkpoint, Memvid::apply_records / rebuild_indexes, persist_header and File::sync_all are ghosts; rebuild_indexes persists the TOC and then the header (as the real one does in its last three statements); the durable (TOC frames, header wal_sequence) pair is tracked after every persisting call",
                  "a header write is atomic (single 4 KiB write)"]
NO_APPLY = "Memvid::apply_records itself (the body that turns a record into a frame) could NOT be executed symbolically: even with one concrete tombstone record CBMC explores the insert arm with opaque state (2.9-4.2 M symex steps) and runs out of memory (> 40 GB); see DESIGN.md section 8. Replay is therefore covered only as wiring (every pending record handed to apply_records exactly once, checkpoint only after it succeeded)."
REG["C01"] = dict(
    cbmc_args=MEMCMP,
    harnesses={"c05_step_append_20": dict(REG["C05"]["harnesses"]["c05_step_append_20"]),
               "c05_step_scan_old_and_pending": dict(REG["C05"]["harnesses"]["c05_step_scan_old_and_pending"]),
               "c05_scan_three_records": dict(REG["C05"]["harnesses"]["c05_scan_three_records"]),
               "c04_recover_uninterrupted_1": dict(RECOVER1)},
    assumptions=IO_ASSUMPTIONS + RECOVER_ASSUME + ["C01 is claimed only as: (a) the embedded log hands every acknowledged record to replay, exactly once and in order (C05 inductive steps + scan fidelity), (d) recovery applies every pending record exactly once and checkpoints only afterwards. " + NO_APPLY],
    out=["apply_records body (record -> frame), put_internal (payload preparation, chunking, extraction), Tantivy, zstd", "whole-API histories"],
)
REG["C06"] = dict(
    cbmc_args=MEMCMP,
    harnesses={"c06_next_frame_id": H(module="lifecycle", enc=["Memvid::next_frame_id", "frame_count"], sym="0..3 committed frames, pending insert counter (any u64)", bound="<= 3 frames"),
               "c04_recover_uninterrupted_1": dict(RECOVER1)},
    assumptions=RECOVER_ASSUME + ["claimed for the id predictor only: next_frame_id = committed frames + acknowledged-uncommitted inserts, and the pending counter is reset exactly when the records were applied. " + NO_APPLY],
    out=["that apply_records assigns id == position (not executable)", "chunked documents, vacuum, doctor"],
)
REG["C08"] = dict(
    cbmc_args=MEMCMP,
    harnesses={"c11_replay_frame_ids_3": dict(REG["C11"]["harnesses"]["c11_replay_frame_ids_3"]),
               "c14_remove_entries_embedding_for": dict(REG["C14"]["harnesses"]["c14_remove_entries_embedding_for"])},
    assumptions=["claimed for two read paths only: the time-travel/candidate filter returns only Active frames, and a frame removed from the uncompressed vector index is no longer findable. " + NO_APPLY],
    out=["mark_frame_deleted / mark_frame_superseded as driven by replay", "Tantivy delete, lexical/ask search paths", "update_frame option inheritance", "timeline filtering is C15"],
)
REG["C24"] = dict(
    cbmc_args=MEMCMP,
    harnesses={"c24_capacity_limit": H(module="lifecycle", enc=["Memvid::capacity_limit", "tier", "get_capacity"], sym="ticket capacity (any u64), WAL size (any)", bound="all values")},
    assumptions=["only the limit computation is decided; the admission check itself is inline in put_internal (not executable) — see DESIGN.md finding 5"],
    out=["the capacity check in put_internal", "CapacityExceeded leaving the memory unchanged"],
)
REG["C02"]["harnesses"]["c02_rewrite_toc_footer_shrinks"] = dict(FOOTER)
REG["C02"]["harnesses"]["c02_rewrite_toc_footer_clamped_to_wal"] = dict(FOOTER2)
REG["C02"]["cbmc_args"] = MEMCMP + FIELDS
REG["C03"] = dict(
    cbmc_args=MEMCMP,
    harnesses={"c05_step_append_1": dict(REG["C05"]["harnesses"]["c05_step_append_1"]), "c02_staging_protocol": dict(STAGING, tier="thorough"), "c02_rewrite_toc_footer_shrinks": dict(FOOTER)},
    assumptions=IO_ASSUMPTIONS + ["C03 is claimed as fsync-ordering obligations inside memvid's own code: an acknowledged append is followed by an fsync (unless batch mode), the staging copy is taken from a synced file and synced before the rename, the TOC/footer rewrite ends with an fsync",
                                  "fsync makes everything written so far durable (kernel contract)"],
    out=["torn writes below write granularity, rename/directory durability (inside atomic-write-file)", "the durable-image obligation (reopen of a crash image)"],
)
REG["C20"] = dict(
    cbmc_args=MEMCMP,
    harnesses={"c02_rewrite_toc_footer_shrinks": dict(FOOTER), "c30_footer_decode_arbitrary": dict(REG["C30"]["harnesses"]["c30_footer_decode_arbitrary"]),
               "c30_time_index_arbitrary_2": dict(REG["C30"]["harnesses"]["c30_time_index_arbitrary_2"]),
               "c20_toc_checksum_gate_current": H(module="toc", replay="solver-only", enc=["Toc::verify_checksum"], sym="stored checksum (any 32 bytes), the digest (any 32 bytes)",
                                          bound="TOC carrying a replay manifest (only the current encoding is tried); encoder and digest are ghosts: accept iff stored checksum equals the computed digest"),
               "c20_toc_checksum_gate_legacy": H("experimental", module="toc", replay="solver-only", enc=["Toc::verify_checksum"], sym="stored checksum, three digests",
                                          bound="TOC without replay manifest: all three encodings tried. NOT decided: cloning the empty manifest vectors into the legacy structs trips a CBMC pointer check (dangling zero-length slice) that does not fail in isolation")},
    assumptions=IO_ASSUMPTIONS + ["kernels only: the footer hash written is the hash of the TOC bytes written; decoders reject inconsistent magic/length"],
    out=["verify(deep) coverage of payload bytes", "open()'s use of the checksums over a whole file", "index segment bytes"],
)

RECOVER_ASSUME = ["EmbeddedWal::records_after / record_checkpoint, Memvid::apply_records / rebuild_indexes, persist_header and File::sync_all are ghosts; rebuild_indexes persists the TOC and then the header (as the real one does in its last three statements); the durable (TOC frames, header wal_sequence) pair is tracked after every persisting call",
                  "a header write is atomic (single 4 KiB write)"]
REG["C04"] = dict(
    cbmc_args=MEMCMP,
    harnesses={
        "c04_recover_uninterrupted_2": H("thorough", module="mutation", replay="solver-only", enc=["Memvid::recover_wal"], sym="checkpoint sequence, pending-insert counter, log region size (64 KiB - 64 MiB), pending bytes, header checkpoint position (any value inside the region, incl. wrapped logs)", bound="2 pending record(s), 1 committed frame; two consecutive recoveries"),
        "c04_recover_uninterrupted_1": H(module="mutation", replay="solver-only", enc=["Memvid::recover_wal"], sym="checkpoint sequence, pending-insert counter, log region size (64 KiB - 64 MiB), pending bytes, header checkpoint position (any value inside the region, incl. wrapped logs)", bound="1 pending record(s), 1 committed frame; two consecutive recoveries"),
        "c04_recover_nothing_pending": H(module="mutation", replay="solver-only", enc=["Memvid::recover_wal"], sym="checkpoint sequence, pending-insert counter, log region size (64 KiB - 64 MiB), pending bytes, header checkpoint position (any value inside the region, incl. wrapped logs)", bound="0 pending record(s), 1 committed frame; two consecutive recoveries"),
        "c04_recover_tombstone_only": H(module="mutation", replay="solver-only", enc=["Memvid::recover_wal"], sym="checkpoint sequence, log region size (64 KiB - 64 MiB), pending bytes, header checkpoint position (any value inside the region, incl. wrapped logs)", bound="1 pending delete, 1 committed frame"),
        "c04_recover_crash_points": H(module="mutation", replay="solver-only", expect="known", enc=["Memvid::recover_wal"], sym="checkpoint sequence; crash point = any persisting call, log region size (64 KiB - 64 MiB), pending bytes, header checkpoint position (any value inside the region, incl. wrapped logs)", bound="1 pending record"),
        "c04_recover_step_failure": H(module="mutation", replay="solver-only", enc=["Memvid::recover_wal"], sym="which step fails (apply / index rebuild), checkpoint sequence, log region size (64 KiB - 64 MiB), pending bytes, header checkpoint position (any value inside the region, incl. wrapped logs)", bound="1 pending record"),
        "c05_step_open_old_and_pending": dict(REG["C05"]["harnesses"]["c05_step_open_old_and_pending"]),
    },
    assumptions=RECOVER_ASSUME,
    out=["index rebuild contents", "footer-scan based recovery after a torn TOC (C31)", "nested crashes beyond one level: the durable-pair invariant is the inductive argument"],
)

REG["C22"] = dict(
    cbmc_args=MEMCMP,
    harnesses={
        "c30_header_decode_arbitrary": dict(REG["C30"]["harnesses"]["c30_header_decode_arbitrary"], panic_is_violation=True),
        "c30_footer_decode_arbitrary": dict(REG["C30"]["harnesses"]["c30_footer_decode_arbitrary"], panic_is_violation=True),
        "c30_time_index_arbitrary_2": dict(REG["C30"]["harnesses"]["c30_time_index_arbitrary_2"]),
        "c22_time_index_any_length": H(module="time_index", panic_is_violation=True, enc=["time_index::read_track"], sym="declared entry count and declared length: any u64", bound="12-byte file (header only)"),
        "c22_wal_scan_arbitrary_bytes": H("experimental", module="wal", panic_is_violation=True, enc=["EmbeddedWal::scan_records"], sym="all 100 bytes of the log region", bound="100-byte region (room for two minimal records)"),
        "c22_read_toc_region_0": H(module="lifecycle", panic_is_violation=True, replay="solver-only", enc=["lifecycle::read_toc", "CommitFooter::decode", "CommitFooter::hash_matches", "lifecycle::verify_toc_prefix"], sym="footer offset (< 2^40), file truncated before it or not, all region bytes", bound="0 bytes behind footer_offset (empty region); File::metadata/seek/read_to_end and Toc::decode are ghosts"),
        "c22_read_toc_region_55": H(module="lifecycle", panic_is_violation=True, replay="solver-only", enc=["lifecycle::read_toc", "CommitFooter::decode", "CommitFooter::hash_matches", "lifecycle::verify_toc_prefix"], sym="footer offset (< 2^40), file truncated before it or not, all region bytes", bound="55 bytes behind footer_offset (one byte short of a footer); File::metadata/seek/read_to_end and Toc::decode are ghosts"),
        "c22_read_toc_region_56": H(module="lifecycle", panic_is_violation=True, replay="solver-only", enc=["lifecycle::read_toc", "CommitFooter::decode", "CommitFooter::hash_matches", "lifecycle::verify_toc_prefix"], sym="footer offset (< 2^40), file truncated before it or not, all region bytes", bound="56 bytes behind footer_offset (exactly a footer (empty TOC)); File::metadata/seek/read_to_end and Toc::decode are ghosts"),
        "c22_read_toc_region_60": H(module="lifecycle", panic_is_violation=True, replay="solver-only", enc=["lifecycle::read_toc", "CommitFooter::decode", "CommitFooter::hash_matches", "lifecycle::verify_toc_prefix"], sym="footer offset (< 2^40), file truncated before it or not, all region bytes", bound="60 bytes behind footer_offset (4 TOC bytes + footer); File::metadata/seek/read_to_end and Toc::decode are ghosts"),
        "c22_verify_toc_prefix": H(module="lifecycle", panic_is_violation=True, enc=["lifecycle::verify_toc_prefix"], sym="32 prefix bytes, length 0..32", bound="TOC prefix of <= 32 bytes"),
        "c22_frame_bounds_validators": H("experimental", module="lifecycle", panic_is_violation=True, enc=["lifecycle::ensure_non_overlapping_frames", "compute_data_end", "compute_payload_region_end"],
                                         sym="2 frames: payload offset/length (any u64), status; file length, header WAL geometry and footer offset (any u64)", bound="2 frames"),
    },
    assumptions=IO_ASSUMPTIONS + ["claimed for the decoders and validators that open()/verify() run on file-supplied numbers BEFORE and AFTER the TOC is decoded; panics, overflows and index errors inside them count as violations; termination is the unwinding assertion"],
    out=["Toc::decode on arbitrary bytes (bincode of the full struct)", "doctor, Tantivy, read APIs over a whole handle", "hangs inside dependencies"],
)

WIRING_ASSUME = ["Memvid::apply_records / rebuild_indexes / rewrite_toc_footer, EmbeddedWal::record_checkpoint, persist_header and File::sync_all are ghosts that log their call order; apply_records appends one frame per record or fails as the harness decides"]
REG["C01"]["harnesses"]["c01_commit_wiring"] = H(module="mutation", replay="solver-only", enc=["Memvid::commit_from_records"], sym="checkpoint sequence, generation, pending-insert counter, whether replay fails", bound="1 pending record")
REG["C01"]["assumptions"] += WIRING_ASSUME
REG["C03"]["harnesses"]["c01_commit_wiring"] = dict(REG["C01"]["harnesses"]["c01_commit_wiring"])
REG["C03"]["harnesses"]["c40_batch_mode_flush"] = H(module="mutation", replay="solver-only", enc=["Memvid::begin_batch", "end_batch"], sym="skip_sync option", bound="one begin/end pair; WAL flush and set_skip_sync ghosted")
REG["C40"] = dict(
    cbmc_args=MEMCMP,
    harnesses={
        "c40_commit_skip_indexes_wiring": H(module="mutation", replay="solver-only", enc=["Memvid::commit_skip_indexes_inner"], sym="as c01_commit_wiring", bound="1 pending record"),
        "c01_commit_wiring": dict(REG["C01"]["harnesses"]["c01_commit_wiring"]),
        "c40_batch_mode_flush": dict(REG["C03"]["harnesses"]["c40_batch_mode_flush"]),
    },
    assumptions=WIRING_ASSUME + ["C40 is claimed at the wiring level only: both commit paths hand the same records to the same apply_records and checkpoint afterwards; the index-skipping path clears every index manifest and puts the footer right after the payloads; batch mode restores per-append fsync only after a flush"],
    out=["equality of search/vector/timeline results after finalize_indexes (Tantivy, index builders)", "ensure_wal_capacity data shifting", "compression level"],
)

GROWTH_ASSUME = ["log growth: shift_data_for_wal_growth (the byte mover), rewrite_toc_footer, persist_header, File::sync_all and EmbeddedWal::open are ghosts that record when they run and what the header/TOC said at that moment; the byte mover itself is not executed (1 MiB buffers)"]
REG["C01"]["harnesses"].update({
    "c01_wal_growth_shifts_frames_and_indexes": H(module="mutation", replay="solver-only", enc=["Memvid::adjust_offsets_after_wal_growth"], sym="growth amount (1..2^40), every section offset (any value behind the log, < 2^40)",
                                                  bound="one frame, one segment, time/vec/lex index manifests present"),
    "c01_wal_growth_shifts_tracks": H(module="mutation", replay="solver-only", enc=["Memvid::adjust_offsets_after_wal_growth"], sym="as above",
                                      bound="one frame; CLIP index, memories track, logic mesh, sketch track and replay manifests present"),
    "c01_grow_wal_region_protocol": H(module="mutation", replay="solver-only", enc=["Memvid::grow_wal_region", "adjust_offsets_after_wal_growth", "catalog_data_end"], sym="required entry size (1..2^24), payload offset, data end, log size 64 KiB or 1 MiB",
                                      bound="one frame; order and arguments of shift / offset update / TOC rewrite / header write / fsync / log reopen"),
})
REG["C01"]["assumptions"] += GROWTH_ASSUME
REG["C40"]["harnesses"].update({
    "c40_wal_presize_protocol": H(module="mutation", replay="solver-only", enc=["Memvid::ensure_wal_capacity", "adjust_offsets_after_wal_growth", "catalog_data_end"], sym="requested pre-size (1..2^24), payload offset, data end, log size 64 KiB or 1 MiB",
                                  bound="one frame; as c01_grow_wal_region_protocol for begin_batch's pre-sizing"),
    "c01_wal_growth_shifts_tracks": dict(REG["C01"]["harnesses"]["c01_wal_growth_shifts_tracks"]),
})
REG["C40"]["assumptions"] += GROWTH_ASSUME
REG["C40"]["out"] = [o for o in REG["C40"]["out"] if "ensure_wal_capacity" not in o] + ["the byte mover shift_data_for_wal_growth itself"]

REG["C19"]["harnesses"]["c19_open_helpers_never_create"] = H(module="lock", replay="solver-only", enc=["FileLock::open_and_lock", "FileLock::open_read_only"], sym="which helper, whether the path exists (open fails or not)",
                                                             bound="one call; OpenOptions builder methods and open are ghosts that record what was asked of the OS")
REG["C19"]["assumptions"] += ["OpenOptions::{create, create_new, truncate, append, open} and FileLock::acquire_with_mode are ghosts in c19_open_helpers_never_create"]

REG["C30"]["harnesses"]["c30_time_index_arbitrary_3"] = H("thorough", module="time_index", panic_is_violation=True, enc=["time_index::read_track"], sym="60 arbitrary bytes declared as a 3-entry track", bound="3 entries")
REG["C38"]["harnesses"]["c38_simd_two_hot_len31"] = H("thorough", module="simd", features=["simd"], enc=["simd::l2_distance_squared_simd (simd feature build)"], sym="two distinct positions, two integer differences in [-8, 8]", bound="length 31 (three chunks + remainder 7)")
REG["C38"]["harnesses"]["c38_simd_two_hot_len40"] = H("thorough", module="simd", features=["simd"], enc=["simd::l2_distance_squared_simd (simd feature build)"], sym="as above", bound="length 40 (five chunks)")

REG["C34"] = dict(
    cbmc_args=MEMCMP,
    harnesses={
        "c34_partition_sentences": H(module="chunks", panic_is_violation=True, enc=["chunks::build_chunk_manifest", "choose_chunk_boundary", "slice_text_range"], sym="chunk size 1..12", bound="fixed 11-character text 'ab. cd. ef.'"),
        "c34_partition_lines_and_words": H(module="chunks", panic_is_violation=True, enc=["chunks::build_chunk_manifest", "choose_chunk_boundary", "slice_text_range"], sym="chunk size 1..12", bound="fixed 11-character text with a newline and spaces"),
        "c34_partition_no_separator": H(module="chunks", panic_is_violation=True, enc=["chunks::build_chunk_manifest", "choose_chunk_boundary", "slice_text_range"], sym="chunk size 0..11", bound="fixed 10-character text without any separator"),
        "c34_choose_boundary_small_slack": H(module="chunks", panic_is_violation=True, enc=["chunks::choose_chunk_boundary"], sym="6 characters over {a . space newline}, start < target <= 6, slack 0..3", bound="6 characters; slack <= 3 (production: max(chunk/5, 32))"),
    },
    assumptions=["chunk size is a parameter of build_chunk_manifest: the harness quantifies over sizes 0..12 on three fixed short texts instead of the production 1200 on long texts"],
    out=["the 2400-character production threshold and normalize_text (NFKC) in plan_text_chunks", "structure-aware chunking of tables/code (detector + StructuralChunker)", "arbitrary (symbolic) text, multi-byte text"],
)

REG["C41"] = dict(
    cbmc_args=MEMCMP,
    harnesses={
        "c41_worker_loop_interleavings": H(module="enrichment_worker", replay="solver-only", enc=["enrichment_worker::run_worker_loop", "EnrichmentWorkerHandle::{new,stop,should_stop,set_running,inc_*}"],
                                           sym="initial queue (3 frames), checkpoint interval 1..3, which tasks fail, and at each of <= 5 lock boundaries an arbitrary foreground action (enqueue / dequeue a frame / stop / nothing)",
                                           bound="3 frames, <= 5 foreground turns (<= 2 worker iterations)"),
    },
    assumptions=["threads are not modelled: the std Mutex gives mutual exclusion, so an interleaving is a foreground action between two worker closures; std::thread::sleep is a no-op",
                 "the worker's four closures are harness models of next_enrichment_task / process / complete / commit (the real process_enrichment_task drives embedding and Tantivy)"],
    out=["real threads and schedulers", "process_enrichment_task body", "that every queued frame ends Enriched (a failing task is completed without being enriched — by design of the loop)"],
)

# ---------------------------------------------------------------------------
# Properties not claimed, with the reason (goes to MANIFEST.not_applicable).
NOT_APPLICABLE.update({
    "C07": "Content fidelity needs the replay body (Memvid::apply_records writes the payload and records offset/length/checksum) and the read path (frame_canonical_bytes over Frame clones, zstd FFI). apply_records could not be executed symbolically: even one concrete record drives CBMC through 2.9-4.2 M symex steps and out of memory (> 40 GB) - measured, see DESIGN.md 8.4; zstd is FFI. No kernel that is left carries the property.",
    "C09": "Lexical recall is decided by Tantivy's index and BM25 collector and by SimHash over blake3 token hashes of whole documents; neither compiles to a goto-program of tractable size, and a counterexample found with the hash stubbed cannot be replayed (the solver cannot invert blake3). The sub-claim 'the term filter has no false negatives' is C39.",
    "C10": "Hit validity is decided inside try_tantivy_search (Tantivy scoring, doc_limit) and the lex-gated search monolith; the non-Tantivy kernels that carry parts of it are claimed elsewhere (snippet ranges C35, ACL re-ranking C12, cursor C16). LexIndex::compute_matches works on HashMap/HashSet<String>-backed postings, which CBMC could not handle here (every HashSet<String> harness timed out: C12 decision core, C27).",
    "C18": None,  # filled below when the read-only harnesses are registered
    "C21": "Doctor is ~1700 lines of path-based orchestration (open/verify/rebuild/vacuum through real files, Tantivy, mmap); no kernel of it carries the property, which is defined over crash-left whole files.",
    "C23": "Byte-identical output is a whole-pipeline property (zstd, Tantivy segment ids, wall-clock defaults); per-kernel determinism is trivially true of pure functions and says nothing about the file.",
    "C26": "The faulty use of the WAL sequence number as frame id (triplet cards, enrichment queue, instant index) is inside put_internal, which cannot be executed symbolically (zstd, extractors, regex, serde_json); the kernels around it use whatever id they are given. Recorded as an observation in DESIGN.md (section 2.7 item 6), not as a checked finding.",
    "C27": "MemoriesTrack keeps its slot index in a HashMap<String, Vec<id>>; the harness (c27_temporal_2cards, kept as experimental) did not finish in 15 minutes even for 2 cards of one slot (also with SipHash replaced by a constant hash and per-loop unwind bounds, the recipe that made the C12 HashSet harnesses tractable) - hashbrown probing and SipHash over Strings are intractable for CBMC in this setup.",
    "C28": "'Same answers before/after reopen and after doctor' is decided by Tantivy snapshot/restore and index loading from real files; the two encodable round trips are already C13/C14 (vector index operations) and C15 (time index).",
    "C29": "The capsule stream framing sits on AES-GCM/Argon2 (aes-gcm, argon2 crates) behind the `encryption` feature; with the AEAD stubbed to an ideal oracle the remaining framing loop reads/writes through File handles with 1 MiB chunk buffers (symbolic-size allocations). Not attempted within the time available; no claim.",
    "C32": "Parser totality/semantics: probed in the design phase - with regex stubbed the parser compiles, but symex of TextTerm::from_word (trim/contains/to_ascii_lowercase over core's memchr loops) did not finish in 7 minutes for 4 tokens; tokens are heap Strings inside Vec<Token>/Box<Expr> (symbolic-shape containers, see DESIGN.md 8.2). The recursion-depth defect (parse_factor/parse_primary recurse once per NOT / '(' token: stack exhaustion on pathological input) is recorded as an observation, not a checked finding.",
    "C33": "NFKC normalisation and grapheme segmentation are table-driven Unicode algorithms (tens of KB of tables, data-dependent loops); CBMC cannot decide them on symbolic text, and an ASCII-only restriction removes exactly the inputs the property is about.",
    "C36": "mask_pii / contains_pii are sequential regex replacements; regex-automata does not survive Kani code generation (ICE) and a stubbed regex leaves nothing to check.",
    "C42": "vacuum() is commit() + a table-rewrite loop over Vec<Frame> (cloned frames, payload reads/writes through the handle) + rebuild_indexes; the loop is not separable from the two ends, and Memvid-level code that clones or drops Frame values is exactly what blew up for apply_records (DESIGN.md 8.4). Not attempted beyond reading; no claim.",
})
NOT_APPLICABLE = {k: v for k, v in NOT_APPLICABLE.items() if v}

if not os.environ.get("VERIF_TRY_C27"):
    del REG["C27"]  # not claimed (see NOT_APPLICABLE); the harness stays in harness/memories_track.rs

REG["C18"] = dict(
    cbmc_args=MEMCMP,
    harnesses={
        "c18_wal_read_only_old_and_pending": H(module="wal", replay="solver-only", enc=["EmbeddedWal::open_read_only", "pending_records", "append_entry", "record_checkpoint", "should_checkpoint"],
                                               sym="any invariant log state with checkpointed and pending records (region 48 B - 64 MiB)", bound="one read-only open followed by a scan, an append, a checkpoint; scan ghosted; data-less disk counts every write"),
        "c18_wal_read_only_open_only": H(module="wal", replay="solver-only", enc=["EmbeddedWal::open_read_only"], sym="any invariant log state with checkpointed and pending records", bound="one read-only open; data-less disk counts every write"),
        "c18_wal_read_only_open_pending_only": H(module="wal", replay="solver-only", enc=["EmbeddedWal::open_read_only"], sym="any invariant log state with pending records only", bound="one read-only open"),
        "c18_wal_read_only_scan_only": H(module="wal", replay="solver-only", enc=["EmbeddedWal::open_read_only", "pending_records"], sym="as above", bound="read-only open + one scan"),
        "c18_wal_read_only_empty": H("thorough", module="wal", replay="solver-only", enc=["EmbeddedWal::open_read_only", "pending_records", "append_entry", "record_checkpoint"], sym="any empty log", bound="as above, empty log"),
        "c18_header_read_without_repair": H(module="header", enc=["HeaderCodec::read_without_repair", "HeaderCodec::read"], sym="4 bytes anywhere in the legacy-lock region of an otherwise valid header", bound="4096-byte header image"),
    },
    assumptions=["claimed for the two write-capable components the read-only open goes through: the embedded log handle (no write for any state; mutators refused) and the header reader (the read-only path uses a reader without Write capability and decodes the same header as the repairing reader)"],
    out=["read APIs above the log (search/timeline/verify over a whole handle)", "load_tail_snapshot (mmap + footer scan + TOC decode)", "Tantivy temp directories"],
)


# harnesses that use the in-memory disk WITH data need per-cell tracking of the 512-byte disk
for _p in REG.values():
    for _n, _h in _p["harnesses"].items():
        if _n.startswith(("c05_record_layout", "c05_scan_", "c22_wal_scan", "c02_rewrite_toc_footer")):
            _h["cbmc"] = MEMCMP + FIELDS


del REG["C34"]
NOT_APPLICABLE["C34"] = ("Chunk planning builds Vec<(usize, char)> / Vec<TextChunkRange> whose lengths depend on the text and on the chunk size; every formulation that leaves anything symbolic "
                         "(text characters, or the chunk size on a fixed 10-character text, or choose_chunk_boundary on 6 symbolic characters) ran into the 'container of symbolic length' wall "
                         "(time-out at 15 minutes / out of memory, DESIGN.md 8.2), and with everything concrete the run is a unit test, not a solver check. Harnesses kept in harness/chunks.rs, not claimed.")
REG["C31"] = dict(
    cbmc_args=MEMCMP,
    harnesses={"c31_footer_scan_60": H("experimental", module="footer", panic_is_violation=True, enc=["footer::find_last_valid_footer", "CommitFooter::decode"], sym="all 60 bytes", bound="60-byte buffer (one footer with a 4-byte TOC, or overlapping candidates)")},
    assumptions=["memchr::memrchr replaced by its functional specification (the real one dispatches through a cpuid-selected function pointer)", "CommitFooter::hash_matches replaced by the weak hash"],
    out=["buffers longer than 60 bytes"],
)


del REG["C31"]
NOT_APPLICABLE["C31"] = ("find_last_valid_footer calls memchr::memrchr, which on x86_64 dispatches through a cpuid-selected function pointer (inline asm): Kani reports the stub memchr::memrchr -> spec as applied, "
                         "but the inline asm stays reachable ('TerminatorKind::InlineAsm is not currently supported', harness c31_footer_scan_60, kept as experimental in harness/footer.rs); forcing memchr's "
                         "SSE2 path instead did not finish symex in 400 s on 64 symbolic bytes (design-phase probe). The function cannot be executed symbolically with the tools in this image.")
