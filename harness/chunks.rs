// Harnesses for src/memvid/chunks.rs.
#![allow(unused_imports, clippy::all, clippy::pedantic)]
use super::*;
use crate::verif_env::*;

#[path = "/verif/harness/playback/chunks.rs"]
mod playback;

fn ascii_text<const N: usize>() -> [u8; N] {
    let raw: [u8; N] = kani::any();
    let mut i = 0;
    while i < N {
        kani::assume(raw[i] == b'a' || raw[i] == b'.' || raw[i] == b' ' || raw[i] == b'\n');
        i += 1;
    }
    raw
}

// C34: the planned ranges partition the text: contiguous from 0 to the character count, each
// non-empty, and the slices concatenate to the text.  The TEXT is concrete per instance
// (char_indices over symbolic bytes is intractable: every attempt ran out of memory); the
// chunk size is symbolic, so every split position the chooser can pick on that text is covered.
fn partition(text: &str, lo: usize, hi: usize) {
    let raw = text.as_bytes();
    let n = raw.len();
    let chunk_chars: usize = kani::any();
    kani::assume(chunk_chars >= lo && chunk_chars <= hi);
    let m = build_chunk_manifest(text, chunk_chars);
    match &m {
        Some(man) => {
            assert!(n > chunk_chars, "[C34] a text not longer than one chunk was split");
            assert!(!man.chunks.is_empty(), "[C34] chunk plan without chunks");
            let mut expect_start = 0usize;
            let mut i = 0;
            while i < man.chunks.len() {
                let r = &man.chunks[i];
                assert!(r.start == expect_start, "[C34] chunk ranges are not contiguous (gap or overlap)");
                assert!(r.end > r.start, "[C34] empty chunk range");
                assert!(r.end <= n, "[C34] chunk range beyond the end of the text");
                let piece = slice_text_range(text, r);
                assert!(piece.len() == r.end - r.start, "[C34] chunk text length differs from its range");
                let pb = piece.as_bytes();
                let mut k = 0;
                while k < pb.len() {
                    assert!(pb[k] == raw[r.start + k], "[C34] chunk text differs from the text at its range");
                    k += 1;
                }
                expect_start = r.end;
                leak(piece);
                i += 1;
            }
            assert!(expect_start == n, "[C34] chunk ranges do not end at the character count (text lost)");
            kani::cover!(man.chunks.len() >= 3, "split into several chunks");
        }
        None => assert!(n <= chunk_chars || chunk_chars == 0, "[C34] a text longer than one chunk was not planned"),
    }
    leak(m);
}
verif_proof! { [C34]
    #[kani::unwind(14)]
    fn c34_partition_sentences() { partition("ab. cd. ef.", 1, 12); }
}
verif_proof! { [C34]
    #[kani::unwind(14)]
    fn c34_partition_lines_and_words() { partition("ab cd\nef gh", 1, 12); }
}
verif_proof! { [C34]
    #[kani::unwind(14)]
    fn c34_partition_no_separator() { partition("abcdefghij", 0, 11); }
}

// the boundary chooser on symbolic characters with a SMALL slack (production: max(chunk/5, 32)):
// never beyond the text, never beyond the forward window, cuts before the target only at separators
verif_proof! { [C34]
    #[kani::unwind(8)]
    fn c34_choose_boundary_small_slack() {
        let cls: [u8; 6] = kani::any();
        let mut chars: [(usize, char); 7] = [(0, 'a'); 7];
        let mut raw = [b'a'; 6];
        let mut i = 0;
        while i < 6 {
            kani::assume(cls[i] < 4);
            let c = match cls[i] { 0 => b'a', 1 => b'.', 2 => b' ', _ => b'\n' };
            raw[i] = c;
            chars[i] = (i, c as char);
            i += 1;
        }
        chars[6] = (6, '\0');
        let start: usize = kani::any();
        let target: usize = kani::any();
        let slack: usize = kani::any();
        kani::assume(start < target && target <= 6 && slack <= 3);
        let r = choose_chunk_boundary(&chars, start, target, 6, slack);
        assert!(r <= 6, "[C34] chunk boundary beyond the end of the text");
        assert!(r <= core::cmp::min(target + slack, 6), "[C34] chunk boundary beyond the forward window");
        if r > start && r < target {
            let c = raw[r - 1];
            assert!(c == b'\n' || c == b'.' || c == b' ', "[C34] chunk cut in the middle of a word although no separator was chosen");
        }
        kani::cover!(r > target, "boundary after the target");
        kani::cover!(r < target && r > start, "boundary before the target");
    }
}
