// Harnesses for src/memvid/chunks.rs.
#![allow(unused_imports, clippy::all, clippy::pedantic)]
use super::*;
use crate::verif_env::*;

#[path = "/verif/harness/playback/chunks.rs"]
mod playback;

fn ascii_text<const N: usize>() -> [u8; N] {
    let raw: [u8; N] = kani::any();
    let mut i = 0;
    while i < N {
        kani::assume(raw[i] == b'a' || raw[i] == b'.' || raw[i] == b' ' || raw[i] == b'\n');
        i += 1;
    }
    raw
}

// C34: the planned ranges partition the text: contiguous from 0 to the
// character count, each non-empty, and the slices concatenate to the text.
fn partition<const N: usize>(chunk_chars: usize) {
    let raw = ascii_text::<N>();
    let text = unsafe { core::str::from_utf8_unchecked(&raw) };
    let m = build_chunk_manifest(text, chunk_chars);
    match &m {
        Some(man) => {
            assert!(N > chunk_chars, "[C34] a text not longer than one chunk was split");
            assert!(!man.chunks.is_empty(), "[C34] chunk plan without chunks");
            let mut expect_start = 0usize;
            let mut i = 0;
            while i < man.chunks.len() {
                let r = &man.chunks[i];
                assert!(r.start == expect_start, "[C34] chunk ranges are not contiguous (gap or overlap)");
                assert!(r.end > r.start, "[C34] empty chunk range");
                assert!(r.end <= N, "[C34] chunk range beyond the end of the text");
                let piece = slice_text_range(text, r);
                assert!(piece.len() == r.end - r.start, "[C34] chunk text length differs from its range");
                let pb = piece.as_bytes();
                let mut k = 0;
                while k < pb.len() {
                    assert!(pb[k] == raw[r.start + k], "[C34] chunk text differs from the text at its range");
                    k += 1;
                }
                expect_start = r.end;
                leak(piece);
                i += 1;
            }
            assert!(expect_start == N, "[C34] chunk ranges do not end at the character count (text lost)");
            kani::cover!(man.chunks.len() >= 2, "split into several chunks");
        }
        None => assert!(N <= chunk_chars || chunk_chars == 0, "[C34] a text longer than one chunk was not planned"),
    }
    leak(m);
}
verif_proof! { [C34]
    #[kani::unwind(9)]
    fn c34_partition_6_by_2() { partition::<6>(2); }
}
verif_proof! { [C34]
    #[kani::unwind(9)]
    fn c34_partition_7_by_3() { partition::<7>(3); }
}

// the boundary chooser with a SMALL slack (production uses max(chunk/5, 32)):
// never beyond the text, and never beyond the forward window.
verif_proof! { [C34]
    #[kani::unwind(9)]
    fn c34_choose_boundary_small_slack() {
        let raw = ascii_text::<7>();
        let mut chars: Vec<(usize, char)> = Vec::new();
        let mut i = 0;
        while i < 7 {
            chars.push((i, raw[i] as char));
            i += 1;
        }
        chars.push((7, '\0'));
        let start: usize = kani::any();
        let target: usize = kani::any();
        let slack: usize = kani::any();
        kani::assume(start < target && target <= 7 && slack <= 3);
        let r = choose_chunk_boundary(&chars, start, target, 7, slack);
        assert!(r <= 7, "[C34] chunk boundary beyond the end of the text");
        assert!(r <= core::cmp::min(target + slack, 7), "[C34] chunk boundary beyond the forward window");
        if r > start {
            // a boundary before the target must sit right after a newline, a sentence end or whitespace
            if r < target {
                let c = raw[r - 1];
                assert!(c == b'\n' || c == b'.' || c == b' ', "[C34] chunk cut in the middle of a word although no separator was chosen");
            }
        }
        kani::cover!(r > target, "boundary after the target");
        kani::cover!(r < target && r > start, "boundary before the target");
        leak(chars);
    }
}
