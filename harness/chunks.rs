// harnesses for src/memvid/chunks.rs (child module: sees private items of its parent)
