// playback slot (filled temporarily by bin/check during a native replay)
