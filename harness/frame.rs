// harnesses for src/memvid/frame.rs (child module: sees private items of its parent)
