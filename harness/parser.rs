// harnesses for src/search/parser.rs (child module: sees private items of its parent)
