// harnesses for src/memvid/maintenance.rs (child module: sees private items of its parent)
