// harnesses for src/memvid/search/fallback.rs (child module: sees private items of its parent)
