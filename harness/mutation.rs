// Harnesses for src/memvid/mutation.rs (child module: sees CommitStaging,
// with_staging_lock, apply_records, ... which are private to the file).
#![allow(unused_imports, unused_variables, static_mut_refs, clippy::all, clippy::pedantic)]
use super::*;
use crate::verif_env::*;
use std::os::fd::{AsRawFd, FromRawFd};

#[path = "/verif/harness/playback/mutation.rs"]
mod playback;

// ===========================================================================
// with_staging_lock: the copy-and-rename commit protocol (C02, C03, C17, C19).
//
// File identity is modelled by the raw descriptor number: a handle made with
// File::from_raw_fd(n) "is" inode n (try_clone keeps the number).  The ghost
// PATH_INODE says which inode the memory's path currently names; the staging
// commit (rename) makes it the staging inode; OpenOptions::open returns a
// handle to whatever the path names.  Every environment call appends to an
// event log and answers as the harness decides (op result, rename result).
// ===========================================================================
const INODE_ORIG: i32 = 10;
const INODE_STAGING: i32 = 20;
static mut PATH_INODE: i32 = INODE_ORIG;

const E_SYNC: u8 = 1; // arg = inode
const E_PREPARE: u8 = 2;
const E_COPY: u8 = 3;
const E_CLONE: u8 = 4;
const E_WALOPEN: u8 = 5; // arg = inode
const E_OP: u8 = 6;
const E_COMMIT: u8 = 7;
const E_DISCARD: u8 = 8;
const E_OPEN: u8 = 9; // arg = inode returned
const E_LOCK: u8 = 10; // arg = inode locked
const E_CLOSE: u8 = 11; // arg = inode closed
const EVMAX: usize = 24;
static mut EVK: [u8; EVMAX] = [0; EVMAX];
static mut EVA: [i32; EVMAX] = [0; EVMAX];
static mut EVN: usize = 0;
static mut RENAME_FAILS: bool = false;

fn ev(kind: u8, arg: i32) {
    unsafe {
        if EVN < EVMAX {
            EVK[EVN] = kind;
            EVA[EVN] = arg;
        }
        EVN += 1;
    }
}
// (straight-line scans of the event log: no loops, so the harness' unwind bound
// only has to cover the loops of the code under test)
fn first(kind: u8) -> usize {
    let n = unsafe { EVN };
    let mut found = usize::MAX;
    unrolled_128!(n, i => { if i < EVMAX && found == usize::MAX && unsafe { EVK[i] } == kind { found = i; } });
    found
}
fn count(kind: u8) -> usize {
    let n = unsafe { EVN };
    let mut c = 0;
    unrolled_128!(n, i => { if i < EVMAX && unsafe { EVK[i] } == kind { c += 1; } });
    c
}
/// index of the last event of `kind` with argument `arg` before position `before`
fn last_before(kind: u8, arg: i32, before: usize) -> usize {
    let n = unsafe { EVN };
    let mut found = usize::MAX;
    unrolled_128!(n, i => { if i < EVMAX && i < before && unsafe { EVK[i] } == kind && unsafe { EVA[i] } == arg { found = i; } });
    found
}

fn g_sync(f: &File) -> std::io::Result<()> { ev(E_SYNC, f.as_raw_fd()); Ok(()) }
fn g_try_clone(f: &File) -> std::io::Result<File> { Ok(unsafe { File::from_raw_fd(f.as_raw_fd()) }) }
fn g_fd_drop(fd: &mut std::os::fd::OwnedFd) { ev(E_CLOSE, fd.as_raw_fd()); }
fn g_prepare(_p: &Path) -> Result<CommitStaging> { ev(E_PREPARE, 0); Ok(placeholder::<CommitStaging>()) }
fn g_copy_from(_s: &mut CommitStaging, source: &File) -> Result<()> { ev(E_COPY, source.as_raw_fd()); Ok(()) }
fn g_clone_file(_s: &CommitStaging) -> Result<File> { ev(E_CLONE, INODE_STAGING); Ok(unsafe { File::from_raw_fd(INODE_STAGING) }) }
fn g_commit(s: CommitStaging) -> Result<()> {
    core::mem::forget(s);
    ev(E_COMMIT, 0);
    unsafe {
        if RENAME_FAILS {
            return Err(MemvidError::CheckpointFailed { reason: "injected rename failure".into() });
        }
        PATH_INODE = INODE_STAGING;
    }
    Ok(())
}
fn g_discard(s: CommitStaging) -> Result<()> { core::mem::forget(s); ev(E_DISCARD, 0); Ok(()) }
fn g_wal_open(file: &File, header: &crate::types::Header) -> Result<EmbeddedWal> {
    ev(E_WALOPEN, file.as_raw_fd());
    // a handle tagged (through its never-used region_offset slot) is not needed: zeroed is enough
    Ok(unsafe { core::mem::zeroed() })
}
fn g_open<P: AsRef<Path>>(_o: &OpenOptions, _p: P) -> std::io::Result<File> {
    let ino = unsafe { PATH_INODE };
    ev(E_OPEN, ino);
    Ok(unsafe { File::from_raw_fd(ino) })
}
fn g_lock_with_retry(file: &File, _mode: crate::lock::LockMode) -> Result<()> { ev(E_LOCK, file.as_raw_fd()); Ok(()) }
fn g_wal_drop(_w: &mut EmbeddedWal) {}

static mut OP_FAILS: bool = false;

#[cfg(kani)]
kani::stub_set!(staging_stubs,
    use_stub_set(crate::verif_env::memvid_stubs),
    stub(std::fs::File::sync_all, crate::memvid::mutation::verif_mutation::g_sync),
    stub(std::fs::File::try_clone, crate::memvid::mutation::verif_mutation::g_try_clone),
    stub(<std::os::fd::OwnedFd as core::ops::Drop>::drop, crate::memvid::mutation::verif_mutation::g_fd_drop),
    stub(crate::memvid::mutation::CommitStaging::prepare, crate::memvid::mutation::verif_mutation::g_prepare),
    stub(crate::memvid::mutation::CommitStaging::copy_from, crate::memvid::mutation::verif_mutation::g_copy_from),
    stub(crate::memvid::mutation::CommitStaging::clone_file, crate::memvid::mutation::verif_mutation::g_clone_file),
    stub(crate::memvid::mutation::CommitStaging::commit, crate::memvid::mutation::verif_mutation::g_commit),
    stub(crate::memvid::mutation::CommitStaging::discard, crate::memvid::mutation::verif_mutation::g_discard),
    stub(crate::io::wal::EmbeddedWal::open, crate::memvid::mutation::verif_mutation::g_wal_open),
    stub(std::fs::OpenOptions::open, crate::memvid::mutation::verif_mutation::g_open),
    stub(crate::lock::FileLock::lock_with_retry, crate::memvid::mutation::verif_mutation::g_lock_with_retry),
    stub(alloc::fmt::format, crate::verif_env::stub_format),
);

verif_proof! { [C02 C03 C17 C19]
    #[kani::unwind(4)]
    #[kani::use_stub_set(crate::memvid::mutation::verif_mutation::staging_stubs)]
    fn c02_staging_protocol() {
        let mut toc = crate::memvid::lifecycle::empty_toc();
        let mut mv = mk_memvid(toc, mk_header(65536));
        mv.file = unsafe { File::from_raw_fd(INODE_ORIG) };
        mv.lock = {
            let f = unsafe { File::from_raw_fd(INODE_ORIG) };
            let l = crate::lock::FileLock::acquire_with_mode(&f, crate::lock::LockMode::Exclusive);
            core::mem::forget(f);
            match l { Ok(l) => l, Err(e) => { leak(e); return; } }
        };
        let gen0: u64 = kani::any();
        let end0: u64 = kani::any();
        let fo0: u64 = kani::any();
        let dirty0: bool = kani::any();
        mv.generation = gen0;
        mv.data_end = end0;
        mv.header.footer_offset = fo0;
        mv.dirty = dirty0;
        let frames0 = mv.toc.frames.len();
        unsafe { EVN = 0; PATH_INODE = INODE_ORIG; RENAME_FAILS = kani::any(); OP_FAILS = kani::any(); }
        let new_gen: u64 = kani::any();
        let new_end: u64 = kani::any();
        let r = mv.with_staging_lock(move |m: &mut Memvid| {
            ev(E_OP, m.file.as_raw_fd());
            m.generation = new_gen;
            m.data_end = new_end;
            m.header.footer_offset = new_end;
            m.dirty = false;
            m.toc.frames.push(mk_frame(0, 0, FrameStatus::Active));
            if unsafe { OP_FAILS } { Err(MemvidError::CheckpointFailed { reason: "injected".into() }) } else { Ok(()) }
        });
        let n = unsafe { EVN };
        assert!(n < EVMAX, "[env] event log overflow");
        let i_op = first(E_OP);
        let i_commit = first(E_COMMIT);
        assert!(i_op != usize::MAX, "[C02] the commit body never ran");
        // the commit body must work on the staging copy, never on the live file
        assert!(unsafe { EVA[i_op] } == INODE_STAGING, "[C02] commit body ran against the live file instead of the staging copy");
        // the staging copy must be taken from a synced source
        let i_copy = first(E_COPY);
        assert!(i_copy != usize::MAX && last_before(E_SYNC, INODE_ORIG, i_copy) != usize::MAX, "[C03] staging copy taken before the live file was fsynced");
        // the temp file is resolved exactly once: renamed into place or discarded
        assert!(count(E_COMMIT) + count(E_DISCARD) == 1, "[C19] staging file neither committed nor discarded exactly once (a temporary file may be left behind)");
        match &r {
            Ok(()) => {
                assert!(!unsafe { OP_FAILS } && !unsafe { RENAME_FAILS }, "[C02] commit reported success although the body or the rename failed");
                assert!(i_commit != usize::MAX && i_commit > i_op, "[C02] success without renaming the staging file into place");
                // C03: everything written to the staging copy is fsynced before the rename
                let i_sync = last_before(E_SYNC, INODE_STAGING, i_commit);
                assert!(i_sync != usize::MAX && i_sync > i_op, "[C03] staging file renamed into place without an fsync after the commit body wrote it");
                // the handle now refers to the file at the path
                assert!(mv.file.as_raw_fd() == unsafe { PATH_INODE }, "[C02] after commit the handle does not refer to the file at the path");
                assert!(mv.generation == new_gen && mv.data_end == new_end && mv.toc.frames.len() == frames0 + 1, "[C02] successful commit lost the committed in-memory state");
                // C17: the writer lock must be held on the inode the path names now
                let lock_handle = mv.lock.clone_handle();
                match &lock_handle {
                    Ok(h) => assert!(h.as_raw_fd() == unsafe { PATH_INODE }, "[C17] after commit the exclusive lock is held on the replaced inode, not on the file at the path: a second writer can open it"),
                    Err(_) => assert!(false, "[C17] lock handle unavailable"),
                }
                assert!(mv.lock.mode() == crate::lock::LockMode::Exclusive, "[C17] lock mode changed by commit");
                leak(lock_handle);
                kani::cover!(true, "commit succeeded");
            }
            Err(_) => {
                assert!(unsafe { OP_FAILS } || unsafe { RENAME_FAILS }, "[C02] commit failed although nothing failed");
                // roll back: in-memory state and handle are the originals
                assert!(mv.generation == gen0 && mv.data_end == end0 && mv.header.footer_offset == fo0 && mv.dirty == dirty0 && mv.toc.frames.len() == frames0,
                        "[C02] failed commit left modified in-memory state (header/TOC/data_end/generation not rolled back)");
                assert!(mv.file.as_raw_fd() == INODE_ORIG, "[C02] failed commit left the handle pointing at the discarded staging file");
                assert!(unsafe { PATH_INODE } == INODE_ORIG, "[C02] failed commit replaced the file at the path");
                if unsafe { OP_FAILS } {
                    assert!(i_commit == usize::MAX, "[C02] staging file renamed into place although the commit body failed");
                }
                let lock_handle = mv.lock.clone_handle();
                match &lock_handle {
                    Ok(h) => assert!(h.as_raw_fd() == INODE_ORIG, "[C17] failed commit moved the lock off the live file"),
                    Err(_) => assert!(false, "[C17] lock handle unavailable"),
                }
                leak(lock_handle);
                kani::cover!(unsafe { RENAME_FAILS } && !unsafe { OP_FAILS }, "rename failure rolled back");
                kani::cover!(unsafe { OP_FAILS }, "body failure rolled back");
            }
        }
        leak(r);
        leak(mv);
    }
}
