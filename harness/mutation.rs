// Harnesses for src/memvid/mutation.rs (child module: sees CommitStaging,
// with_staging_lock, apply_records, ... which are private to the file).
#![allow(unused_imports, unused_variables, static_mut_refs, clippy::all, clippy::pedantic)]
use super::*;
use crate::verif_env::*;
use std::os::fd::{AsRawFd, FromRawFd};

#[path = "/verif/harness/playback/mutation.rs"]
mod playback;

// ===========================================================================
// with_staging_lock: the copy-and-rename commit protocol (C02, C03, C17, C19).
//
// File identity is modelled by the raw descriptor number: a handle made with
// File::from_raw_fd(n) "is" inode n (try_clone keeps the number).  The ghost
// PATH_INODE says which inode the memory's path currently names; the staging
// commit (rename) makes it the staging inode; OpenOptions::open returns a
// handle to whatever the path names.  Every environment call appends to an
// event log and answers as the harness decides (op result, rename result).
// ===========================================================================
const INODE_ORIG: i32 = 10;
const INODE_STAGING: i32 = 20;
static mut PATH_INODE: i32 = INODE_ORIG;

const E_SYNC: u8 = 1; // arg = inode
const E_PREPARE: u8 = 2;
const E_COPY: u8 = 3;
const E_CLONE: u8 = 4;
const E_WALOPEN: u8 = 5; // arg = inode
const E_OP: u8 = 6;
const E_COMMIT: u8 = 7;
const E_DISCARD: u8 = 8;
const E_OPEN: u8 = 9; // arg = inode returned
const E_LOCK: u8 = 10; // arg = inode locked
const E_CLOSE: u8 = 11; // arg = inode closed
const E_UNLOCK: u8 = 12; // arg = inode unlocked
const EVMAX: usize = 24;
static mut EVK: [u8; EVMAX] = [0; EVMAX];
static mut EVA: [i32; EVMAX] = [0; EVMAX];
static mut EVN: usize = 0;
static mut RENAME_FAILS: bool = false;

fn ev(kind: u8, arg: i32) {
    unsafe {
        if EVN < EVMAX {
            EVK[EVN] = kind;
            EVA[EVN] = arg;
        }
        EVN += 1;
    }
}
// (straight-line scans of the event log: no loops, so the harness' unwind bound
// only has to cover the loops of the code under test)
fn first(kind: u8) -> usize {
    let n = unsafe { EVN };
    let mut found = usize::MAX;
    unrolled_128!(n, i => { if i < EVMAX && found == usize::MAX && unsafe { EVK[i] } == kind { found = i; } });
    found
}
fn count(kind: u8) -> usize {
    let n = unsafe { EVN };
    let mut c = 0;
    unrolled_128!(n, i => { if i < EVMAX && unsafe { EVK[i] } == kind { c += 1; } });
    c
}
/// index of the last event of `kind` with argument `arg` before position `before`
fn last_before(kind: u8, arg: i32, before: usize) -> usize {
    let n = unsafe { EVN };
    let mut found = usize::MAX;
    unrolled_128!(n, i => { if i < EVMAX && i < before && unsafe { EVK[i] } == kind && unsafe { EVA[i] } == arg { found = i; } });
    found
}

fn g_sync(f: &File) -> std::io::Result<()> { ev(E_SYNC, f.as_raw_fd()); Ok(()) }
fn g_try_clone(f: &File) -> std::io::Result<File> { Ok(unsafe { File::from_raw_fd(f.as_raw_fd()) }) }
fn g_fd_drop(fd: &mut std::os::fd::OwnedFd) { ev(E_CLOSE, fd.as_raw_fd()); }
fn g_prepare(_p: &Path) -> Result<CommitStaging> { ev(E_PREPARE, 0); Ok(placeholder::<CommitStaging>()) }
fn g_copy_from(_s: &mut CommitStaging, source: &File) -> Result<()> { ev(E_COPY, source.as_raw_fd()); Ok(()) }
fn g_clone_file(_s: &CommitStaging) -> Result<File> { ev(E_CLONE, INODE_STAGING); Ok(unsafe { File::from_raw_fd(INODE_STAGING) }) }
fn g_commit(s: CommitStaging) -> Result<()> {
    core::mem::forget(s);
    ev(E_COMMIT, 0);
    unsafe {
        if RENAME_FAILS {
            return Err(MemvidError::CheckpointFailed { reason: "injected rename failure".into() });
        }
        PATH_INODE = INODE_STAGING;
    }
    Ok(())
}
fn g_discard(s: CommitStaging) -> Result<()> { core::mem::forget(s); ev(E_DISCARD, 0); Ok(()) }
/// a placeholder log handle whose (private) file field carries the inode it was opened on
fn tagged_wal(inode: i32) -> EmbeddedWal {
    let mut w: EmbeddedWal = unsafe { core::mem::zeroed() };
    let base = &w as *const EmbeddedWal as usize;
    let off = w.file() as *const File as usize - base;
    unsafe { core::ptr::write((&mut w as *mut EmbeddedWal as *mut u8).add(off) as *mut i32, inode); }
    w
}
fn g_wal_open(file: &File, header: &crate::types::Header) -> Result<EmbeddedWal> {
    ev(E_WALOPEN, file.as_raw_fd());
    Ok(tagged_wal(file.as_raw_fd()))
}
fn g_open<P: AsRef<Path>>(_o: &OpenOptions, _p: P) -> std::io::Result<File> {
    let ino = unsafe { PATH_INODE };
    ev(E_OPEN, ino);
    Ok(unsafe { File::from_raw_fd(ino) })
}
fn g_lock_with_retry(file: &File, _mode: crate::lock::LockMode) -> Result<()> { ev(E_LOCK, file.as_raw_fd()); Ok(()) }
// Toc::clone as a shallow copy (frame count and scalar frame fields): the harness only compares
// the frame table and scalars across the rollback, and the real deep clone of every manifest is
// what made this harness take 7+ minutes
fn g_toc_clone(t: &crate::types::Toc) -> crate::types::Toc {
    let mut c = crate::memvid::lifecycle::empty_toc();
    let n = t.frames.len();
    unrolled_4!(n, i => { c.frames.push(stub_frame_clone(&t.frames[i])); });
    c.toc_version = t.toc_version;
    c.ticket_ref.seq_no = t.ticket_ref.seq_no;
    c.toc_checksum = t.toc_checksum;
    c
}
fn g_unlock(f: &File) -> std::io::Result<()> { ev(E_UNLOCK, f.as_raw_fd()); Ok(()) }

static mut OP_FAILS: bool = false;

#[cfg(kani)]
kani::stub_set!(staging_stubs,
    use_stub_set(crate::verif_env::memvid_stubs),
    stub(std::fs::File::sync_all, crate::memvid::mutation::verif_mutation::g_sync),
    stub(std::fs::File::try_clone, crate::memvid::mutation::verif_mutation::g_try_clone),
    stub(<std::os::fd::OwnedFd as core::ops::Drop>::drop, crate::memvid::mutation::verif_mutation::g_fd_drop),
    stub(crate::memvid::mutation::CommitStaging::prepare, crate::memvid::mutation::verif_mutation::g_prepare),
    stub(crate::memvid::mutation::CommitStaging::copy_from, crate::memvid::mutation::verif_mutation::g_copy_from),
    stub(crate::memvid::mutation::CommitStaging::clone_file, crate::memvid::mutation::verif_mutation::g_clone_file),
    stub(crate::memvid::mutation::CommitStaging::commit, crate::memvid::mutation::verif_mutation::g_commit),
    stub(crate::memvid::mutation::CommitStaging::discard, crate::memvid::mutation::verif_mutation::g_discard),
    stub(crate::io::wal::EmbeddedWal::open, crate::memvid::mutation::verif_mutation::g_wal_open),
    stub(std::fs::OpenOptions::open, crate::memvid::mutation::verif_mutation::g_open),
    stub(crate::lock::FileLock::lock_with_retry, crate::memvid::mutation::verif_mutation::g_lock_with_retry),
    stub(std::fs::File::unlock, crate::memvid::mutation::verif_mutation::g_unlock),
    stub(<crate::types::Toc as core::clone::Clone>::clone, crate::memvid::mutation::verif_mutation::g_toc_clone),
    stub(<crate::types::Frame as core::clone::Clone>::clone, crate::verif_env::stub_frame_clone),
    stub(alloc::fmt::format, crate::verif_env::stub_format),
);

verif_proof! { [C02 C03 C17 C19]
    #[kani::unwind(4)]
    #[kani::use_stub_set(crate::memvid::mutation::verif_mutation::staging_stubs)]
    fn c02_staging_protocol() {
        let mut toc = crate::memvid::lifecycle::empty_toc();
        let mut mv = mk_memvid(toc, mk_header(65536));
        leak(core::mem::replace(&mut mv.file, unsafe { File::from_raw_fd(INODE_ORIG) }));
        leak(core::mem::replace(&mut mv.wal, tagged_wal(INODE_ORIG)));
        mv.lock = {
            let f = unsafe { File::from_raw_fd(INODE_ORIG) };
            let l = crate::lock::FileLock::acquire_with_mode(&f, crate::lock::LockMode::Exclusive);
            core::mem::forget(f);
            match l { Ok(l) => l, Err(e) => { leak(e); return; } }
        };
        let gen0: u64 = kani::any();
        let end0: u64 = kani::any();
        let fo0: u64 = kani::any();
        let dirty0: bool = kani::any();
        mv.generation = gen0;
        mv.data_end = end0;
        mv.header.footer_offset = fo0;
        mv.dirty = dirty0;
        let frames0 = mv.toc.frames.len();
        unsafe { EVN = 0; PATH_INODE = INODE_ORIG; RENAME_FAILS = kani::any(); OP_FAILS = kani::any(); }
        let new_gen: u64 = kani::any();
        let new_end: u64 = kani::any();
        let r = mv.with_staging_lock(move |m: &mut Memvid| {
            ev(E_OP, m.file.as_raw_fd());
            m.generation = new_gen;
            m.data_end = new_end;
            m.header.footer_offset = new_end;
            m.dirty = false;
            m.toc.frames.push(mk_frame(0, 0, FrameStatus::Active));
            if unsafe { OP_FAILS } { Err(MemvidError::CheckpointFailed { reason: "injected".into() }) } else { Ok(()) }
        });
        let n = unsafe { EVN };
        assert!(n < EVMAX, "[env] event log overflow");
        let i_op = first(E_OP);
        let i_commit = first(E_COMMIT);
        assert!(i_op != usize::MAX, "[C02] the commit body never ran");
        // the commit body must work on the staging copy, never on the live file
        assert!(unsafe { EVA[i_op] } == INODE_STAGING, "[C02] commit body ran against the live file instead of the staging copy");
        // the staging copy must be taken from a synced source
        let i_copy = first(E_COPY);
        assert!(i_copy != usize::MAX && last_before(E_SYNC, INODE_ORIG, i_copy) != usize::MAX, "[C03] staging copy taken before the live file was fsynced");
        // the temp file is resolved exactly once: renamed into place or discarded
        assert!(count(E_COMMIT) + count(E_DISCARD) == 1, "[C19] staging file neither committed nor discarded exactly once (a temporary file may be left behind)");
        match &r {
            Ok(()) => {
                assert!(!unsafe { OP_FAILS } && !unsafe { RENAME_FAILS }, "[C02] commit reported success although the body or the rename failed");
                assert!(i_commit != usize::MAX && i_commit > i_op, "[C02] success without renaming the staging file into place");
                // C03: everything written to the staging copy is fsynced before the rename
                let i_sync = last_before(E_SYNC, INODE_STAGING, i_commit);
                assert!(i_sync != usize::MAX && i_sync > i_op, "[C03] staging file renamed into place without an fsync after the commit body wrote it");
                // the handle now refers to the file at the path
                assert!(mv.file.as_raw_fd() == unsafe { PATH_INODE }, "[C02] after commit the handle does not refer to the file at the path");
                assert!(mv.generation == new_gen && mv.data_end == new_end && mv.toc.frames.len() == frames0 + 1, "[C02] successful commit lost the committed in-memory state");
                assert!(mv.wal.file().as_raw_fd() == unsafe { PATH_INODE }, "[C02] after commit the log handle is not open on the file at the path: later puts would be written elsewhere");
                kani::cover!(true, "commit succeeded");
                // C17: the writer lock must be held on the inode the path names now
                let lock_handle = mv.lock.clone_handle();
                match &lock_handle {
                    Ok(h) => assert!(h.as_raw_fd() == unsafe { PATH_INODE }, "[C17] after commit the exclusive lock is held on the replaced inode, not on the file at the path: a second writer can open it"),
                    Err(_) => assert!(false, "[C17] lock handle unavailable"),
                }
                assert!(mv.lock.mode() == crate::lock::LockMode::Exclusive, "[C17] lock mode changed by commit");
                leak(lock_handle);
            }
            Err(_) => {
                assert!(unsafe { OP_FAILS } || unsafe { RENAME_FAILS }, "[C02] commit failed although nothing failed");
                // roll back: in-memory state and handle are the originals
                assert!(mv.generation == gen0 && mv.data_end == end0 && mv.header.footer_offset == fo0 && mv.dirty == dirty0 && mv.toc.frames.len() == frames0,
                        "[C02] failed commit left modified in-memory state (header/TOC/data_end/generation not rolled back)");
                assert!(mv.file.as_raw_fd() == INODE_ORIG, "[C02] failed commit left the handle pointing at the discarded staging file");
                assert!(unsafe { PATH_INODE } == INODE_ORIG, "[C02] failed commit replaced the file at the path");
                assert!(mv.wal.file().as_raw_fd() == INODE_ORIG, "[C02] failed commit left the log handle open on the discarded staging file: later acknowledged puts are written to an unlinked file and lost");
                if unsafe { OP_FAILS } {
                    assert!(i_commit == usize::MAX, "[C02] staging file renamed into place although the commit body failed");
                }
                let lock_handle = mv.lock.clone_handle();
                match &lock_handle {
                    Ok(h) => assert!(h.as_raw_fd() == INODE_ORIG, "[C17] failed commit moved the lock off the live file"),
                    Err(_) => assert!(false, "[C17] lock handle unavailable"),
                }
                leak(lock_handle);
                kani::cover!(unsafe { RENAME_FAILS } && !unsafe { OP_FAILS }, "rename failure rolled back");
                kani::cover!(unsafe { OP_FAILS }, "body failure rolled back");
            }
        }
        leak(r);
        leak(mv);
    }
}

// ===========================================================================
// apply_records: the step that turns acknowledged log records into frames
// (C01, C06, C07, C08).  Inductive step: ANY two-frame table (symbolic status,
// payload ranges, checksums), any data_end, ONE record of any kind (insert with
// inline payload / insert reusing a payload / tombstone), optionally a second
// insert.  The wire decoding of the record is replaced by the entry the
// harness built (bincode/serde is out of reach; record order and sequence
// numbers are real).
// ===========================================================================
#[derive(Clone, Copy)]
struct GEntry {
    op_insert: bool,
    ts: i64,
    plen: usize, // 0, 1 or 3
    p: [u8; 3],
    target: Option<u64>,
    supersedes: Option<u64>,
    reuse: Option<u64>,
    role_chunk: bool,
    canonical_length: Option<u64>,
}
static mut GENT: [GEntry; 2] = [GEntry { op_insert: true, ts: 0, plen: 0, p: [0; 3], target: None, supersedes: None, reuse: None, role_chunk: false, canonical_length: None }; 2];
static mut GNEXT: usize = 0;

fn any_entry() -> GEntry {
    let plen: usize = kani::any();
    kani::assume(plen == 0 || plen == 1 || plen == 3);
    GEntry { op_insert: kani::any(), ts: kani::any(), plen, p: kani::any(), target: kani::any(), supersedes: kani::any(), reuse: kani::any(), role_chunk: false, canonical_length: kani::any() }
}

fn g_decode(_bytes: &[u8]) -> Result<WalEntry> {
    let k = unsafe { GNEXT };
    unsafe { GNEXT += 1; }
    let e = unsafe { GENT[if k < 2 { k } else { 1 }] };
    let payload = if e.plen == 0 { Vec::new() } else if e.plen == 1 { vec![e.p[0]] } else { vec![e.p[0], e.p[1], e.p[2]] };
    Ok(WalEntry::Frame(WalEntryData {
        timestamp: e.ts,
        kind: None,
        track: None,
        payload,
        embedding: None,
        uri: None,
        title: None,
        canonical_encoding: CanonicalEncoding::Plain,
        canonical_length: e.canonical_length,
        metadata: None,
        search_text: None,
        tags: Vec::new(),
        labels: Vec::new(),
        extra_metadata: BTreeMap::new(),
        content_dates: Vec::new(),
        chunk_manifest: None,
        role: if e.role_chunk { FrameRole::DocumentChunk } else { FrameRole::Document },
        parent_sequence: None,
        chunk_index: None,
        chunk_count: None,
        op: if e.op_insert { FrameWalOp::Insert } else { FrameWalOp::Tombstone },
        target_frame_id: e.target,
        supersedes_frame_id: e.supersedes,
        reuse_payload_from: e.reuse,
        source_sha256: None,
        source_path: None,
        enrichment_state: crate::types::EnrichmentState::default(),
    }))
}
fn g_default_uri(_id: FrameId) -> String { String::new() }
// every metadata map in these harnesses is empty; the real clone/drop of a BTreeMap whose
// emptiness CBMC cannot see concretely (structs moved by memcpy) unrolls the B-tree walkers
// Frame::clone replaced by a copy of the scalar fields: every frame in these harnesses has empty
// strings/maps, and cloning a frame whose emptiness CBMC cannot see concretely unrolls the
// B-tree and Vec<String> walkers (millions of symex steps).
fn g_frame_clone(f: &Frame) -> Frame {
    let mut c = mk_frame(f.id, f.timestamp, f.status);
    c.payload_offset = f.payload_offset;
    c.payload_length = f.payload_length;
    c.checksum = f.checksum;
    c.canonical_encoding = f.canonical_encoding;
    c.canonical_length = f.canonical_length;
    c.role = f.role;
    c.parent_id = f.parent_id;
    c.supersedes = f.supersedes;
    c.superseded_by = f.superseded_by;
    c
}
fn g_infer_title(_uri: &str) -> Option<String> { None }

fn any_status() -> FrameStatus {
    let b: u8 = kani::any();
    kani::assume(b < 3);
    match b { 0 => FrameStatus::Active, 1 => FrameStatus::Deleted, _ => FrameStatus::Superseded }
}

#[derive(Clone, Copy)]
struct Snap { status: FrameStatus, off: u64, len: u64, sum0: u8, by: Option<u64>, ts: i64 }
fn snap(f: &Frame) -> Snap { Snap { status: f.status, off: f.payload_offset, len: f.payload_length, sum0: f.checksum[0], by: f.superseded_by, ts: f.timestamp } }

#[cfg(kani)]
kani::stub_set!(apply_stubs,
    use_stub_set(crate::verif_env::io_stubs),
    use_stub_set(crate::verif_env::memvid_stubs),
    stub(crate::memvid::mutation::decode_wal_entry, crate::memvid::mutation::verif_mutation::g_decode),
    stub(crate::default_uri, crate::memvid::mutation::verif_mutation::g_default_uri),
    stub(<crate::types::Frame as core::clone::Clone>::clone, crate::memvid::mutation::verif_mutation::g_frame_clone),
    stub(crate::infer_title_from_uri, crate::memvid::mutation::verif_mutation::g_infer_title),
    stub(alloc::fmt::format, crate::verif_env::stub_format),
);

/// kind: 1 = plain insert, 2 = update with new payload, 3 = payload-reusing insert, 4 = tombstone.
/// `idx` = the frame the record refers to (0/1 existing, 2 = missing, 9 = none).  The referenced
/// index is CONCRETE per harness instance: a write through a symbolic index into the frame table
/// makes every frame (with its maps and strings) symbolic for CBMC and the query explodes.
static mut VARIANT: u8 = 0;
fn apply_step(n_records: usize, kind: u8, idx: u64, plen0: usize) {
    let variant = unsafe { VARIANT };
    let mut toc = crate::memvid::lifecycle::empty_toc();
    let mut pre = [Snap { status: FrameStatus::Active, off: 0, len: 0, sum0: 0, by: None, ts: 0 }; 2];
    // (straight-line: large structs moved by value turn loop bounds symbolic for CBMC, so the
    // unwind bound is kept at the minimum the code under test needs)
    unrolled_4!(2usize, i => {
        let mut f = if variant == 2 { mk_frame(i as u64, 5, FrameStatus::Active) } else { mk_frame(i as u64, kani::any(), any_status()) };
        if variant != 2 {
        f.payload_offset = kani::any();
        f.payload_length = kani::any();
        f.checksum[0] = kani::any();
        f.canonical_length = kani::any();
        }
        pre[i] = snap(&f);
        toc.frames.push(f);
    });
    let mut mv = mk_memvid(toc, mk_header(64));
    leak(core::mem::replace(&mut mv.file, open_zero_disk(200)));
    let end0: u64 = kani::any();
    kani::assume(end0 >= 64 && end0 <= 180);
    if variant == 1 { kani::assume(end0 == 100); }
    mv.data_end = end0;
    let cpe0: u64 = kani::any();
    mv.cached_payload_end = cpe0;
    let mut e0 = any_entry();
    let refer = if idx == 9 { None } else { Some(idx) };
    e0.plen = plen0;
    match kind {
        1 => { e0.op_insert = true; e0.reuse = None; e0.supersedes = None; e0.target = None; }
        2 => { e0.op_insert = true; e0.reuse = None; e0.target = None; e0.supersedes = refer; }
        3 => { e0.op_insert = true; e0.target = None; e0.supersedes = None; e0.reuse = refer; }
        _ => { e0.op_insert = false; e0.reuse = None; e0.supersedes = None; e0.target = refer; }
    }
    let e1 = { let mut e = any_entry(); e.op_insert = true; e.reuse = None; e.supersedes = None; e.target = None; e.plen = 1; e };
    unsafe { GENT = if variant == 3 { [e0, e0] } else { [e0, e1] }; GNEXT = 0; }
    let mut records = Vec::new();
    if variant != 4 { records.push(WalRecord { sequence: 7, payload: vec![0u8] }); }
    if n_records == 2 {
        records.push(WalRecord { sequence: 8, payload: vec![0u8] });
    }
    let r = mv.apply_records(records);
    let frames = &mv.toc.frames;
    match &r {
        Ok(delta) => {
            assert!(unsafe { GNEXT } == n_records, "[C01] not every log record was applied exactly once");
            let mut expect_len = 2usize;
            let mut cursor = end0;
            // ---- record 0 ----
            if e0.op_insert {
                assert!(frames.len() >= 3, "[C01] an acknowledged insert produced no frame");
                let f = &frames[2];
                assert!(f.id == 2, "[C06] a new frame's id is not its position in the frame table");
                assert!(f.status == FrameStatus::Active && f.timestamp == e0.ts, "[C01] inserted frame does not carry the record's timestamp / is not active");
                match e0.reuse {
                    Some(src) => {
                        assert!(src < 2 && e0.plen == 0, "[C01] payload-reusing insert accepted although its source is missing or it carries inline bytes");
                        let s = &pre[src as usize];
                        assert!(f.payload_offset == s.off && f.payload_length == s.len && f.checksum[0] == s.sum0, "[C07] payload-reusing update does not point at the source frame's payload");
                    }
                    None => {
                        assert!(f.payload_offset == cursor && f.payload_length == e0.plen as u64, "[C01] inserted payload is not placed at the end of the data region");
                        unrolled_4!(e0.plen, k => {
                            assert!(disk_get(&mut mv.file, cursor + k as u64) == *e0.p.get(k).unwrap_or(&0), "[C07] stored payload bytes differ from the bytes that were put");
                        });
                        let want = oracle_hash(&e0.p[..e0.plen]);
                        assert!(f.checksum[0] == want[0] && f.checksum[1] == want[1] && f.checksum[2] == want[2], "[C07] recorded payload checksum is not the checksum of the stored bytes");
                        cursor += e0.plen as u64;
                    }
                }
                if let Some(p) = e0.supersedes {
                    assert!(p < 2, "[C08] update accepted although the frame it supersedes does not exist");
                    assert!(frames[p as usize].status == FrameStatus::Superseded && frames[p as usize].superseded_by == Some(2), "[C08] superseded frame is still active or does not name its successor");
                    assert!(f.supersedes == Some(p), "[C08] new version does not record which frame it supersedes");
                }
                expect_len = 3;
                kani::cover!(e0.reuse.is_some(), "payload-reusing insert applied");
                kani::cover!(e0.supersedes.is_some() && e0.reuse.is_none(), "update with new payload applied");
            } else {
                match e0.target {
                    Some(t) => {
                        assert!(t < 2, "[C08] tombstone accepted for a frame that does not exist");
                        assert!(frames[t as usize].status == FrameStatus::Deleted, "[C08] deleted frame is still not marked deleted");
                    }
                    None => assert!(false, "[C08] tombstone without a target was accepted"),
                }
                assert!(delta.mutated_frames, "[C08] delete not reported as a mutation (indexes would not be rebuilt)");
                kani::cover!(true, "tombstone applied");
            }
            // ---- record 1 (plain insert) ----
            if n_records == 2 {
                assert!(frames.len() == expect_len + 1, "[C01] second acknowledged insert produced no frame (or extra frames)");
                let f = &frames[expect_len];
                assert!(f.id == expect_len as u64, "[C06] frame ids are not dense in put order");
                assert!(f.payload_offset == cursor && f.payload_length == e1.plen as u64, "[C01] second payload does not follow the first one");
                unrolled_4!(e1.plen, k => {
                    assert!(disk_get(&mut mv.file, cursor + k as u64) == *e1.p.get(k).unwrap_or(&0), "[C07] stored payload bytes differ from the bytes that were put");
                });
                cursor += e1.plen as u64;
                expect_len += 1;
            }
            assert!(frames.len() == expect_len, "[C01] frame table has extra or missing frames after replay");
            // untouched frames keep identity and payload
            unrolled_4!(2usize, j => {
                assert!(frames[j].id == j as u64 && frames[j].payload_offset == pre[j].off && frames[j].payload_length == pre[j].len && frames[j].timestamp == pre[j].ts,
                        "[C06] replay changed the identity or payload location of an existing frame");
                let touched = (e0.op_insert && e0.supersedes == Some(j as u64)) || (!e0.op_insert && e0.target == Some(j as u64));
                if !touched {
                    assert!(frames[j].status == pre[j].status, "[C08] replay changed the status of a frame no record refers to");
                }
            });
            assert!(mv.data_end == core::cmp::max(end0, cursor), "[C01] data_end does not cover the payloads just written");
            assert!(mv.cached_payload_end >= cpe0 && (cursor == end0 || mv.cached_payload_end >= cursor), "[C24] cached payload end does not cover the payloads just written");
        }
        Err(_) => {
            // only malformed records may be refused
            let bad0 = if e0.op_insert {
                (e0.reuse.is_some() && (e0.plen != 0 || e0.reuse.map_or(false, |s| s >= 2))) || e0.supersedes.map_or(false, |p| p >= 2)
            } else {
                e0.target.map_or(true, |t| t >= 2)
            };
            assert!(bad0, "[C01] a well-formed acknowledged record was refused during replay");
            kani::cover!(true, "malformed record refused");
        }
    }
    leak(r);
    leak(mv);
}

verif_proof! { [C01 C06 C07 C24]
    #[kani::unwind(2)]
    #[kani::use_stub_set(crate::memvid::mutation::verif_mutation::apply_stubs)]
    fn c01_apply_plain_insert() { apply_step(1, 1, 9, 3); }
}
verif_proof! { [C01 C06 C07]
    #[kani::unwind(2)]
    #[kani::use_stub_set(crate::memvid::mutation::verif_mutation::apply_stubs)]
    fn c01_apply_empty_payload() { apply_step(1, 1, 9, 0); }
}
verif_proof! { [C01 C06 C07 C08]
    #[kani::unwind(2)]
    #[kani::use_stub_set(crate::memvid::mutation::verif_mutation::apply_stubs)]
    fn c01_apply_update_of_1() { apply_step(1, 2, 1, 1); }
}
verif_proof! { [C01 C08]
    #[kani::unwind(2)]
    #[kani::use_stub_set(crate::memvid::mutation::verif_mutation::apply_stubs)]
    fn c01_apply_update_of_missing() { apply_step(1, 2, 2, 1); }
}
verif_proof! { [C01 C06 C07 C08]
    #[kani::unwind(2)]
    #[kani::use_stub_set(crate::memvid::mutation::verif_mutation::apply_stubs)]
    fn c01_apply_reuse_of_0() { apply_step(1, 3, 0, 0); }
}
verif_proof! { [C01 C07]
    #[kani::unwind(2)]
    #[kani::use_stub_set(crate::memvid::mutation::verif_mutation::apply_stubs)]
    fn c01_apply_reuse_with_inline_bytes() { apply_step(1, 3, 0, 1); }
}
verif_proof! { [C01 C07]
    #[kani::unwind(2)]
    #[kani::use_stub_set(crate::memvid::mutation::verif_mutation::apply_stubs)]
    fn c01_apply_reuse_of_missing() { apply_step(1, 3, 2, 0); }
}
verif_proof! { [C01 C06 C08]
    #[kani::unwind(2)]
    #[kani::use_stub_set(crate::memvid::mutation::verif_mutation::apply_stubs)]
    fn c01_apply_tombstone_0() { apply_step(1, 4, 0, 0); }
}
verif_proof! { [C01 C08]
    #[kani::unwind(2)]
    #[kani::use_stub_set(crate::memvid::mutation::verif_mutation::apply_stubs)]
    fn c01_apply_tombstone_missing() { apply_step(1, 4, 2, 0); }
}
verif_proof! { [C01 C08]
    #[kani::unwind(2)]
    #[kani::use_stub_set(crate::memvid::mutation::verif_mutation::apply_stubs)]
    fn c01_apply_tombstone_without_target() { apply_step(1, 4, 9, 0); }
}
verif_proof! { [C01 C06 C07]
    #[kani::unwind(3)]
    #[kani::use_stub_set(crate::memvid::mutation::verif_mutation::apply_stubs)]
    fn c01_apply_two_inserts() { apply_step(2, 1, 9, 3); }
}
verif_proof! { [C01 C06 C07]
    #[kani::unwind(3)]
    #[kani::use_stub_set(crate::memvid::mutation::verif_mutation::apply_stubs)]
    fn c01_apply_reuse_then_insert() { apply_step(2, 3, 0, 0); }
}
verif_proof! { [C01 C06 C08]
    #[kani::unwind(3)]
    #[kani::use_stub_set(crate::memvid::mutation::verif_mutation::apply_stubs)]
    fn c01_apply_tombstone_then_insert() { apply_step(2, 4, 1, 0); }
}

// ===========================================================================
// rewrite_toc_footer: what a commit leaves at the end of the file (C02, C03, C20).
// TOC serialisation is replaced by an arbitrary 5-byte blob.
// ===========================================================================
static mut TOCBLOB: [u8; 5] = [0; 5];
fn g_prepare_toc(toc: &mut crate::types::Toc) -> Result<Vec<u8>> {
    let b = unsafe { TOCBLOB };
    toc.toc_checksum = oracle_hash(&b);
    Ok(vec![b[0], b[1], b[2], b[3], b[4]])
}
#[cfg(kani)]
kani::stub_set!(footer_stubs,
    use_stub_set(crate::verif_env::io_stubs),
    use_stub_set(crate::verif_env::memvid_stubs),
    stub(crate::memvid::lifecycle::prepare_toc_bytes, crate::memvid::mutation::verif_mutation::g_prepare_toc),
    stub(alloc::fmt::format, crate::verif_env::stub_format),
);
/// Geometry (footer offset, WAL size, previous file length) is concrete per instance: writes at a
/// symbolic position touch every cell of the in-memory disk and the query times out.  TOC bytes,
/// generation and the previous file contents beyond the footer are symbolic.
fn rewrite_footer(fo: u64, wal_size: u64, old_len: u64) {
    let toc = crate::memvid::lifecycle::empty_toc();
    let mut header = mk_header(wal_size);
    header.wal_offset = 16;
    header.footer_offset = fo;
    let mut mv = mk_memvid(toc, header);
    leak(core::mem::replace(&mut mv.file, open_zero_disk(old_len)));
    mv.generation = kani::any();
    let blob: [u8; 5] = kani::any();
    unsafe { TOCBLOB = blob; EV_N = 0; }
    let r = mv.rewrite_toc_footer();
    assert!(r.is_ok(), "[C02] rewrite_toc_footer failed although no I/O failed");
    unrolled_4!(5usize, k => {
        assert!(disk_get(&mut mv.file, fo + k as u64) == blob[k], "[C02] TOC bytes are not where the header's footer_offset points");
    });
    assert!(disk_get(&mut mv.file, fo + 4) == blob[4], "[C02] TOC bytes are not where the header's footer_offset points");
    let mut fbytes = [0u8; crate::footer::FOOTER_SIZE];
    unrolled_128!(crate::footer::FOOTER_SIZE, k => { fbytes[k] = disk_get(&mut mv.file, fo + 5 + k as u64); });
    match CommitFooter::decode(&fbytes) {
        Some(f) => {
            assert!(f.toc_len == 5, "[C02] commit footer records a wrong TOC length");
            assert!(f.generation == mv.generation, "[C02] commit footer records a wrong generation");
            let want = oracle_hash(&blob);
            assert!(f.toc_hash[0] == want[0] && f.toc_hash[1] == want[1] && f.toc_hash[2] == want[2] && f.toc_hash[3] == want[3], "[C20] commit footer hash is not the hash of the TOC bytes written");
        }
        None => assert!(false, "[C02] no decodable commit footer after the TOC"),
    }
    let want_len = core::cmp::max(fo + 5 + crate::footer::FOOTER_SIZE as u64, 16 + wal_size);
    assert!(unsafe { DISK_LEN } as u64 == want_len, "[C02] file length after commit is not footer end (or WAL end)");
    let n = unsafe { EV_N };
    assert!(n >= 1 && n < EV_MAX && unsafe { EV_KIND[n - 1] } == EV_SYNC, "[C03] TOC/footer written but not fsynced before returning");
    kani::cover!(true, "footer rewritten");
    leak(r);
    leak(mv);
}
verif_proof! { [C02 C03 C20]
    #[kani::unwind(5)]
    #[kani::use_stub_set(crate::memvid::mutation::verif_mutation::footer_stubs)]
    fn c02_rewrite_toc_footer_shrinks() { rewrite_footer(100, 50, 300); }
}
verif_proof! { [C02 C03 C20]
    #[kani::unwind(5)]
    #[kani::use_stub_set(crate::memvid::mutation::verif_mutation::footer_stubs)]
    fn c02_rewrite_toc_footer_clamped_to_wal() { rewrite_footer(20, 200, 40); }
}

// ===========================================================================
// recover_wal: replay at open time (C04, C01).  Everything below recover_wal
// is a ghost: the log hands out N pending records, apply_records appends N
// frames, rebuild_indexes persists the TOC and the header (as the real one
// does at its end), record_checkpoint moves the sequence into the header.
// The ghosts keep the DURABLE pair (frames in the durable TOC, wal_sequence
// in the durable header) after every persisting call; a crash may happen after
// any of them, and the next open replays every record above the durable
// sequence on top of the durable TOC.
// ===========================================================================
static mut W_SEQ0: u64 = 0; // sequence of the last record that was already applied
static mut W_N: u64 = 0; // pending records: W_SEQ0+1 ..= W_SEQ0+W_N
static mut D_FRAMES: usize = 0; // durable TOC: number of frames
static mut APPLIED_MEM: u64 = 0; // records applied to the in-memory TOC
static mut D_APPLIED: u64 = 0; // records reflected in the durable TOC
static mut TOMBSTONES_ONLY: bool = false; // the pending records are deletes (no frame inserted)
static mut D_SEQ: u64 = 0; // durable header: wal_sequence
static mut FRAMES0: usize = 0;
static mut DUP_POSSIBLE: bool = false; // some crash point replays a record twice
static mut LOSS_POSSIBLE: bool = false; // some crash point loses an acknowledged record
static mut R_STEP_FAIL: u8 = 0; // which ghost fails (0 = none)

fn durable_check() {
    unsafe {
        // records the durable TOC already reflects
        let in_toc = D_APPLIED;
        // records a later open would replay: those above D_SEQ
        let replay_from = D_SEQ;
        let first_replayed = replay_from + 1;
        // duplicates: durable TOC contains record i but the header would replay it again
        if in_toc > 0 && first_replayed <= W_SEQ0 + in_toc {
            DUP_POSSIBLE = true;
        }
        // loss: header already covers a record the durable TOC does not contain
        if D_SEQ > W_SEQ0 + in_toc {
            LOSS_POSSIBLE = true;
        }
    }
}
fn r_records_after(_w: &mut EmbeddedWal, sequence: u64) -> Result<Vec<WalRecord>> {
    let mut v = Vec::new();
    unsafe {
        let mut i = 1;
        while i <= W_N {
            if W_SEQ0 + i > sequence {
                v.push(WalRecord { sequence: W_SEQ0 + i, payload: Vec::new() });
            }
            i += 1;
        }
    }
    Ok(v)
}
fn r_apply(mv: &mut Memvid, records: Vec<WalRecord>) -> Result<IngestionDelta> {
    if unsafe { R_STEP_FAIL } == 1 {
        leak(records);
        return Err(MemvidError::CheckpointFailed { reason: "injected".into() });
    }
    let mut delta = IngestionDelta::default();
    let mut i = 0;
    while i < records.len() {
        if unsafe { TOMBSTONES_ONLY } {
            mv.toc.frames[0].status = FrameStatus::Deleted;
            delta.mutated_frames = true;
        } else {
            let id = mv.toc.frames.len() as u64;
            mv.toc.frames.push(mk_frame(id, 0, FrameStatus::Active));
            delta.inserted_frames.push(id);
        }
        unsafe { APPLIED_MEM += 1; }
        i += 1;
    }
    leak(records);
    Ok(delta)
}
fn r_rebuild(mv: &mut Memvid, _e: &[(FrameId, Vec<f32>)], _f: &[FrameId]) -> Result<()> {
    if unsafe { R_STEP_FAIL } == 2 {
        return Err(MemvidError::CheckpointFailed { reason: "injected".into() });
    }
    // as the real rebuild_indexes ends: rewrite_toc_footer, then persist_header
    unsafe {
        D_FRAMES = mv.toc.frames.len();
        D_APPLIED = APPLIED_MEM;
        durable_check();
        D_SEQ = mv.header.wal_sequence;
        durable_check();
    }
    Ok(())
}
fn r_checkpoint(_w: &mut EmbeddedWal, header: &mut crate::types::Header) -> Result<()> {
    unsafe { header.wal_sequence = W_SEQ0 + W_N; }
    Ok(())
}
fn r_persist_header(_f: &mut File, h: &crate::types::Header) -> Result<()> {
    if unsafe { R_STEP_FAIL } == 3 {
        return Err(MemvidError::CheckpointFailed { reason: "injected".into() });
    }
    unsafe {
        D_SEQ = h.wal_sequence;
        durable_check();
    }
    Ok(())
}
fn r_sync(_f: &File) -> std::io::Result<()> { Ok(()) }

#[cfg(kani)]
kani::stub_set!(recover_stubs,
    use_stub_set(crate::verif_env::memvid_stubs),
    stub(crate::io::wal::EmbeddedWal::records_after, crate::memvid::mutation::verif_mutation::r_records_after),
    stub(crate::io::wal::EmbeddedWal::record_checkpoint, crate::memvid::mutation::verif_mutation::r_checkpoint),
    stub(crate::memvid::lifecycle::Memvid::apply_records, crate::memvid::mutation::verif_mutation::r_apply),
    stub(crate::memvid::lifecycle::Memvid::rebuild_indexes, crate::memvid::mutation::verif_mutation::r_rebuild),
    stub(crate::persist_header, crate::memvid::mutation::verif_mutation::r_persist_header),
    stub(std::fs::File::sync_all, crate::memvid::mutation::verif_mutation::r_sync),
    stub(alloc::fmt::format, crate::verif_env::stub_format),
);

/// EmbeddedWal's fields are private to io::wal: find the word that `stats()` reports as region size
/// (which = 0) or pending bytes (which = 1) by probing the zeroed handle, and set it. Straight-line.
fn set_wal_stat(w: &mut EmbeddedWal, which: u8, value: u64) {
    const MARK: u64 = 0x5A5A_0000_0000_0001;
    let n = core::mem::size_of::<EmbeddedWal>() / 8;
    let base = w as *mut EmbeddedWal as *mut u64;
    let mut done = false;
    unrolled_128!(n, k => {
        if !done {
            let old = unsafe { *base.add(k) };
            unsafe { *base.add(k) = MARK; }
            let st = w.stats();
            let hit = if which == 0 { st.region_size == MARK } else { st.pending_bytes == MARK };
            unsafe { *base.add(k) = if hit { value } else { old }; }
            if hit { done = true; }
        }
    });
    assert!(done, "[env] could not locate the EmbeddedWal field");
}
fn recover_setup(n_pending: u64, frames0: usize, seq0: u64) -> Memvid {
    let mut toc = crate::memvid::lifecycle::empty_toc();
    let mut i = 0;
    while i < frames0 {
        toc.frames.push(mk_frame(i as u64, 0, FrameStatus::Active));
        i += 1;
    }
    let mut mv = mk_memvid(toc, mk_header(65536));
    mv.header.wal_sequence = seq0;
    // the log's geometry and the header's checkpoint position are arbitrary well-formed values
    // (a log that wrapped has checkpoint_pos + pending_bytes > region_size): recovery must not
    // depend on them, only on the records the log hands out
    let rs: u64 = kani::any();
    let wh: u64 = kani::any();
    let pb: u64 = kani::any();
    kani::assume(rs >= 65536 && rs <= 1 << 26 && wh <= rs && pb <= wh && (n_pending == 0 || pb > 0));
    let _ = wh;
    set_wal_stat(&mut mv.wal, 0, rs);
    set_wal_stat(&mut mv.wal, 1, pb);
    mv.header.wal_size = rs;
    let cp: u64 = kani::any();
    kani::assume(cp < rs);
    mv.header.wal_checkpoint_pos = cp;
    unsafe {
        W_SEQ0 = seq0;
        W_N = n_pending;
        FRAMES0 = frames0;
        D_FRAMES = frames0;
        APPLIED_MEM = 0;
        D_APPLIED = 0;
        TOMBSTONES_ONLY = false;
        D_SEQ = seq0;
        DUP_POSSIBLE = false;
        LOSS_POSSIBLE = false;
    }
    mv
}

// uninterrupted recovery: every pending record applied once, checkpoint taken, second run is a no-op
verif_proof! { [C04 C01]
    #[kani::unwind(5)]
    #[kani::use_stub_set(crate::memvid::mutation::verif_mutation::recover_stubs)]
    fn c04_recover_uninterrupted_2() { recover_uninterrupted(2); }
}
verif_proof! { [C04 C01]
    #[kani::unwind(5)]
    #[kani::use_stub_set(crate::memvid::mutation::verif_mutation::recover_stubs)]
    fn c04_recover_uninterrupted_1() { recover_uninterrupted(1); }
}
verif_proof! { [C04 C01]
    #[kani::unwind(5)]
    #[kani::use_stub_set(crate::memvid::mutation::verif_mutation::recover_stubs)]
    fn c04_recover_nothing_pending() { recover_uninterrupted(0); }
}
// (the number of pending records is concrete per instance: containers of symbolic length are intractable)
fn recover_uninterrupted(n: u64) {
    {
        let f0: usize = 1;
        let seq0: u64 = kani::any();
        kani::assume(seq0 < 1 << 40);
        let mut mv = recover_setup(n, f0, seq0);
        unsafe { R_STEP_FAIL = 0; }
        mv.pending_frame_inserts = kani::any();
        let r = mv.recover_wal();
        assert!(r.is_ok(), "[C04] recovery failed although nothing failed");
        assert!(mv.toc.frames.len() == f0 + n as usize, "[C04] recovery did not apply every pending record exactly once");
        assert!(mv.header.wal_sequence == seq0 + n, "[C04] recovery did not checkpoint the replayed records");
        if n > 0 {
            assert!(unsafe { D_APPLIED } == n && unsafe { D_SEQ } == seq0 + n, "[C04] recovered state was not made durable (TOC and header)");
            assert!(mv.pending_frame_inserts == 0, "[C06] pending insert counter not reset after replay: next_frame_id would skip ids");
        }
        // opening a recovered file again changes no frame
        let r2 = mv.recover_wal();
        assert!(r2.is_ok() && mv.toc.frames.len() == f0 + n as usize, "[C04] a second recovery changed the frames (not idempotent)");
        assert!(!unsafe { LOSS_POSSIBLE }, "[C04] at some crash point the durable header already covers a record the durable TOC does not contain (record lost)");
        kani::cover!(mv.toc.frames.len() == f0 + n as usize, "recovery ran");
        leak(r);
        leak(r2);
        leak(mv);
    }
}

// recovery of a log that holds only deletes: the tombstone must reach the durable TOC before
// (or together with) the checkpoint that puts it behind the replay horizon
verif_proof! { [C04 C08]
    #[kani::unwind(5)]
    #[kani::use_stub_set(crate::memvid::mutation::verif_mutation::recover_stubs)]
    fn c04_recover_tombstone_only() {
        let seq0: u64 = kani::any();
        kani::assume(seq0 < 1 << 40);
        let mut mv = recover_setup(1, 1, seq0);
        unsafe { R_STEP_FAIL = 0; TOMBSTONES_ONLY = true; }
        let r = mv.recover_wal();
        assert!(r.is_ok(), "[C04] recovery failed although nothing failed");
        assert!(mv.toc.frames[0].status == FrameStatus::Deleted, "[C04] replayed delete not applied");
        assert!(mv.header.wal_sequence == seq0 + 1, "[C04] recovery did not checkpoint the replayed delete");
        assert!(!unsafe { LOSS_POSSIBLE } && unsafe { D_APPLIED } == 1, "[C04] the checkpoint moved past a replayed delete that never reached the durable TOC: the next open shows the frame active again");
        kani::cover!(true, "tombstone replayed");
        leak(r);
        leak(mv);
    }
}

// crash safety: no crash point may leave a durable (TOC, header) pair from
// which the next open replays a record that the durable TOC already contains
verif_proof! { [C04]
    #[kani::unwind(5)]
    #[kani::use_stub_set(crate::memvid::mutation::verif_mutation::recover_stubs)]
    fn c04_recover_crash_points() {
        let n: u64 = 1;
        let seq0: u64 = kani::any();
        kani::assume(seq0 < 1 << 40);
        let mut mv = recover_setup(n, 1, seq0);
        unsafe { R_STEP_FAIL = 0; }
        let r = mv.recover_wal();
        assert!(r.is_ok(), "[C04] recovery failed although nothing failed");
        assert!(!unsafe { DUP_POSSIBLE }, "[C04] a crash during recovery (after the TOC with the replayed frames is durable, before the header's log sequence is) makes the next open replay the same records again: duplicated frames");
        kani::cover!(true, "recovery ran");
        leak(r);
        leak(mv);
    }
}

// a failing step leaves the checkpoint untouched (records stay pending for the next open)
verif_proof! { [C04]
    #[kani::unwind(5)]
    #[kani::use_stub_set(crate::memvid::mutation::verif_mutation::recover_stubs)]
    fn c04_recover_step_failure() {
        let seq0: u64 = kani::any();
        kani::assume(seq0 < 1 << 40);
        let mut mv = recover_setup(1, 1, seq0);
        let which: u8 = kani::any();
        kani::assume(which == 1 || which == 2);
        unsafe { R_STEP_FAIL = which; }
        let r = mv.recover_wal();
        assert!(r.is_err(), "[C04] recovery reported success although a step failed");
        assert!(mv.header.wal_sequence == seq0 && unsafe { D_SEQ } == seq0, "[C04] a failed recovery advanced the log checkpoint: the records would never be replayed");
        kani::cover!(which == 2, "index rebuild failure");
        leak(r);
        leak(mv);
    }
}

// probe (not registered): is an entry returned through Result<WalEntry> still concrete for CBMC?
verif_proof! { [env]
    #[kani::unwind(3)]
    #[kani::use_stub_set(crate::memvid::mutation::verif_mutation::apply_stubs)]
    fn probe_decode_transport() {
        let mut e0 = any_entry();
        e0.plen = 3;
        unsafe { GENT = [e0, e0]; GNEXT = 0; }
        let bytes = vec![0u8];
        let r = decode_wal_entry(&bytes);
        let entry = match r {
            Ok(WalEntry::Frame(entry)) => entry,
            Err(e) => { leak(e); return; }
        };
        let m = entry.extra_metadata.clone();
        let t = entry.tags.clone();
        assert!(m.is_empty() && t.is_empty());
        leak(m); leak(t); leak(entry); leak(bytes);
    }
}
verif_proof! { [env]
    #[kani::unwind(3)]
    #[kani::use_stub_set(crate::memvid::mutation::verif_mutation::apply_stubs)]
    fn probe_decode_in_loop() {
        let mut e0 = any_entry();
        e0.plen = 3;
        e0.op_insert = false;
        let e1 = { let mut e = any_entry(); e.op_insert = true; e.reuse = None; e.supersedes = None; e.target = None; e.plen = 1; e };
        unsafe { GENT = [e0, e1]; GNEXT = 0; }
        let mut records = Vec::new();
        records.push(WalRecord { sequence: 7, payload: vec![0u8] });
        let mut n = 0;
        for record in records {
            let entry = match decode_wal_entry(&record.payload) {
                Ok(WalEntry::Frame(entry)) => entry,
                Err(e) => { leak(e); return; }
            };
            match entry.op {
                FrameWalOp::Insert => {
                    let m = entry.extra_metadata.clone();
                    let t = entry.tags.clone();
                    assert!(m.is_empty() && t.is_empty());
                    leak(m); leak(t);
                }
                FrameWalOp::Tombstone => { n += 1; }
            }
        }
        assert!(n == 1);
    }
}

verif_proof! { [env]
    #[kani::unwind(2)]
    #[kani::use_stub_set(crate::memvid::mutation::verif_mutation::apply_stubs)]
    fn probe_apply_v1() { unsafe { VARIANT = 4; } apply_step(1, 4, 0, 0); }
}
verif_proof! { [env]
    #[kani::unwind(2)]
    #[kani::use_stub_set(crate::memvid::mutation::verif_mutation::apply_stubs)]
    fn probe_apply_v2() { unsafe { VARIANT = 2; } apply_step(1, 4, 0, 0); }
}

// ===========================================================================
// Commit wiring (C01, C03, C40): commit_from_records and
// commit_skip_indexes_inner with everything below them ghosted (same ghosts
// as recovery, plus a ghost TOC/footer rewrite).  One pending record.
// ===========================================================================
const W_APPLY: u8 = 1;
const W_REBUILD: u8 = 2;
const W_REWRITE: u8 = 3;
const W_CHECKPOINT: u8 = 4;
const W_PERSIST: u8 = 5;
const W_SYNC: u8 = 6;
static mut WLOG: [u8; 12] = [0; 12];
static mut WN: usize = 0;
static mut W_FAIL_APPLY: bool = false;
fn wlog(k: u8) { unsafe { if WN < 12 { WLOG[WN] = k; } WN += 1; } }
fn wpos(k: u8) -> usize {
    let n = unsafe { WN };
    let mut found = usize::MAX;
    unrolled_128!(n, i => { if i < 12 && found == usize::MAX && unsafe { WLOG[i] } == k { found = i; } });
    found
}
fn w_apply(mv: &mut Memvid, records: Vec<WalRecord>) -> Result<IngestionDelta> {
    wlog(W_APPLY);
    if unsafe { W_FAIL_APPLY } {
        leak(records);
        return Err(MemvidError::CheckpointFailed { reason: "injected".into() });
    }
    let mut delta = IngestionDelta::default();
    if records.len() == 1 {
        let id = mv.toc.frames.len() as u64;
        mv.toc.frames.push(mk_frame(id, 0, FrameStatus::Active));
        delta.inserted_frames.push(id);
        mv.data_end = mv.data_end.saturating_add(3);
    }
    leak(records);
    Ok(delta)
}
fn w_rebuild(_mv: &mut Memvid, _e: &[(FrameId, Vec<f32>)], _f: &[FrameId]) -> Result<()> { wlog(W_REBUILD); Ok(()) }
fn w_rewrite(_mv: &mut Memvid) -> Result<()> { wlog(W_REWRITE); Ok(()) }
fn w_checkpoint(_w: &mut EmbeddedWal, header: &mut crate::types::Header) -> Result<()> { wlog(W_CHECKPOINT); header.wal_sequence += 1; Ok(()) }
fn w_persist_header(_f: &mut File, _h: &crate::types::Header) -> Result<()> { wlog(W_PERSIST); Ok(()) }
fn w_sync(_f: &File) -> std::io::Result<()> { wlog(W_SYNC); Ok(()) }
#[cfg(kani)]
kani::stub_set!(wiring_stubs,
    use_stub_set(crate::verif_env::memvid_stubs),
    stub(crate::io::wal::EmbeddedWal::record_checkpoint, crate::memvid::mutation::verif_mutation::w_checkpoint),
    stub(crate::memvid::lifecycle::Memvid::apply_records, crate::memvid::mutation::verif_mutation::w_apply),
    stub(crate::memvid::lifecycle::Memvid::rebuild_indexes, crate::memvid::mutation::verif_mutation::w_rebuild),
    stub(crate::memvid::lifecycle::Memvid::rewrite_toc_footer, crate::memvid::mutation::verif_mutation::w_rewrite),
    stub(crate::persist_header, crate::memvid::mutation::verif_mutation::w_persist_header),
    stub(std::fs::File::sync_all, crate::memvid::mutation::verif_mutation::w_sync),
    stub(alloc::fmt::format, crate::verif_env::stub_format),
);

fn commit_wiring(skip_indexes: bool) {
    let mut toc = crate::memvid::lifecycle::empty_toc();
    toc.frames.push(mk_frame(0, 0, FrameStatus::Active));
    toc.time_index = Some(crate::types::TimeIndexManifest { bytes_offset: 1, bytes_length: 1, entry_count: 1, checksum: [0; 32] });
    let mut mv = mk_memvid(toc, mk_header(65536));
    let seq0: u64 = kani::any();
    kani::assume(seq0 < 1 << 40);
    mv.header.wal_sequence = seq0;
    let gen0: u64 = kani::any();
    mv.generation = gen0;
    mv.pending_frame_inserts = kani::any();
    mv.dirty = true;
    mv.data_end = 100;
    unsafe { WN = 0; W_FAIL_APPLY = kani::any(); }
    let mut records = Vec::new();
    records.push(WalRecord { sequence: seq0 + 1, payload: Vec::new() });
    let r = if skip_indexes { mv.commit_skip_indexes_inner(records) } else { mv.commit_from_records(records, CommitMode::Full) };
    let n = unsafe { WN };
    assert!(n < 12, "[env] wiring log overflow");
    assert!(wpos(W_APPLY) == 0, "[C01] commit did not start by applying the pending records");
    match &r {
        Ok(()) => {
            assert!(!unsafe { W_FAIL_APPLY }, "[C01] commit reported success although replay failed");
            assert!(mv.toc.frames.len() == 2, "[C01] committed frame missing after commit");
            let (i_rw, i_cp, i_ph, i_sy) = (wpos(W_REWRITE), wpos(W_CHECKPOINT), wpos(W_PERSIST), wpos(W_SYNC));
            assert!(i_rw != usize::MAX && i_cp != usize::MAX && i_ph != usize::MAX && i_sy != usize::MAX, "[C01] commit skipped the TOC rewrite, the log checkpoint, the header write or the fsync");
            assert!(i_rw < i_cp && i_cp < i_ph && i_ph < i_sy, "[C03] commit steps out of order (TOC/footer, then checkpoint into the header, then header write, then fsync)");
            assert!(mv.header.wal_sequence == seq0 + 1, "[C01] log not checkpointed by commit: the records would be replayed again");
            assert!(mv.pending_frame_inserts == 0 && !mv.dirty, "[C06] pending-insert counter / dirty flag not reset by commit");
            assert!(mv.generation == gen0.wrapping_add(1), "[C02] commit did not advance the generation");
            if skip_indexes {
                assert!(wpos(W_REBUILD) == usize::MAX, "[C40] index-skipping commit rebuilt indexes");
                assert!(mv.toc.time_index.is_none() && mv.toc.indexes.lex.is_none() && mv.toc.segment_catalog.time_segments.is_empty(), "[C40] index-skipping commit left stale index manifests in the TOC");
                assert!(mv.header.footer_offset == mv.data_end, "[C40] index-skipping commit did not place the footer right after the payloads");
            } else {
                let i_rb = wpos(W_REBUILD);
                assert!(i_rb != usize::MAX && i_rb < i_rw, "[C01] commit with new frames did not rebuild the indexes before writing the TOC");
            }
            kani::cover!(true, "commit succeeded");
        }
        Err(_) => {
            assert!(unsafe { W_FAIL_APPLY }, "[C01] commit failed although nothing failed");
            assert!(wpos(W_CHECKPOINT) == usize::MAX && wpos(W_PERSIST) == usize::MAX, "[C01] failed commit still checkpointed the log: acknowledged records would be dropped");
            assert!(mv.header.wal_sequence == seq0, "[C01] failed commit advanced the log checkpoint");
            kani::cover!(true, "replay failure propagated");
        }
    }
    leak(r);
    leak(mv);
}
verif_proof! { [C01 C03 C06]
    #[kani::unwind(4)]
    #[kani::use_stub_set(crate::memvid::mutation::verif_mutation::wiring_stubs)]
    fn c01_commit_wiring() { commit_wiring(false); }
}
verif_proof! { [C40 C01]
    #[kani::unwind(4)]
    #[kani::use_stub_set(crate::memvid::mutation::verif_mutation::wiring_stubs)]
    fn c40_commit_skip_indexes_wiring() { commit_wiring(true); }
}

// batch mode: begin_batch switches per-append fsync off, end_batch flushes BEFORE switching it back on
static mut FLUSHED_WHILE_SKIP: bool = false;
static mut SKIP_NOW: bool = false;
fn b_set_skip(w: &mut EmbeddedWal, skip: bool) { unsafe { SKIP_NOW = skip; } let _ = w; }
fn b_flush(_w: &mut EmbeddedWal) -> Result<()> { unsafe { if SKIP_NOW { FLUSHED_WHILE_SKIP = true; } } wlog(W_SYNC); Ok(()) }
verif_proof! { [C40 C03]
    #[kani::unwind(3)]
    #[kani::use_stub_set(crate::verif_env::memvid_stubs)]
    #[kani::stub(crate::io::wal::EmbeddedWal::set_skip_sync, b_set_skip)]
    #[kani::stub(crate::io::wal::EmbeddedWal::flush, b_flush)]
    fn c40_batch_mode_flush() {
        let toc = crate::memvid::lifecycle::empty_toc();
        let mut mv = mk_memvid(toc, mk_header(65536));
        unsafe { WN = 0; FLUSHED_WHILE_SKIP = false; SKIP_NOW = false; }
        let skip: bool = kani::any();
        let opts = PutManyOpts { skip_sync: skip, wal_pre_size_bytes: 0, ..PutManyOpts::default() };
        let r = mv.begin_batch(opts);
        assert!(r.is_ok() && mv.batch_opts.is_some() && unsafe { SKIP_NOW } == skip, "[C40] begin_batch did not install the batch options");
        let r2 = mv.end_batch();
        assert!(r2.is_ok() && mv.batch_opts.is_none() && !unsafe { SKIP_NOW }, "[C40] end_batch did not restore normal operation");
        assert!(wpos(W_SYNC) != usize::MAX, "[C03] end_batch returned without flushing the appends that skipped their fsync");
        kani::cover!(skip, "batch with skip_sync");
        leak(r); leak(r2); leak(mv);
    }
}

// ---- WAL growth: every section stored behind the log moves by `delta`; the TOC must follow ----
// `shift_data_for_wal_growth` moves ALL bytes between the end of the log region and the end of
// the file. Obligation (C01: histories that cross embedded-WAL growth): after
// `adjust_offsets_after_wal_growth(delta)` every non-zero offset recorded in the TOC — frame
// payloads, segments, lex/vec/clip indexes, time index, memories track, logic mesh, sketch
// track, replay segment — is exactly `delta` larger, so that the TOC written right afterwards
// (`rewrite_toc_footer` in grow_wal_region / ensure_wal_capacity) still points at the data.
fn any_off() -> u64 {
    let o: u64 = kani::any();
    kani::assume(o >= 4096 + 65536 && o < 1 << 40);
    o
}
fn growth_offsets_step(sections: u8) {
    let mut toc = crate::memvid::lifecycle::empty_toc();
    let mut o = [0u64; 10];
    let mut i = 0;
    while i < 10 { o[i] = any_off(); i += 1; }
    let z = [0u8; 32];
    let mut f = mk_frame(0, 0, FrameStatus::Active);
    f.payload_offset = o[0];
    f.payload_length = 1;
    toc.frames.push(f);
    if sections == 0 {
        toc.time_index = Some(crate::types::TimeIndexManifest { bytes_offset: o[1], bytes_length: 1, entry_count: 1, checksum: z });
        toc.indexes.vec = Some(crate::types::VecIndexManifest { vector_count: 1, dimension: 1, bytes_offset: o[2], bytes_length: 1, checksum: z, compression_mode: crate::types::VectorCompression::None, model: None });
        toc.indexes.lex = Some(crate::types::LexIndexManifest { doc_count: 1, generation: 0, bytes_offset: o[3], bytes_length: 1, checksum: z });
        toc.segments.push(crate::types::SegmentMeta { id: 0, frame_range: (0, 0), primary_checksum: z, compression: crate::types::SegmentCompression::None, bytes_offset: o[9], bytes_length: 1 });
    } else {
        toc.indexes.clip = Some(crate::clip::ClipIndexManifest { bytes_offset: o[4], bytes_length: 1, vector_count: 1, dimension: 1, checksum: z, model_name: String::new() });
        toc.memories_track = Some(crate::types::MemoriesTrackManifest { bytes_offset: o[5], bytes_length: 1, card_count: 1, entity_count: 1, checksum: z });
        toc.logic_mesh = Some(crate::types::LogicMeshManifest { bytes_offset: o[6], bytes_length: 1, node_count: 1, edge_count: 0, checksum: z });
        toc.sketch_track = Some(crate::types::SketchTrackManifest { bytes_offset: o[7], bytes_length: 1, entry_count: 1, entry_size: 32, flags: 0, checksum: z });
        toc.replay_manifest = Some(crate::replay::ReplayManifest { segment_offset: o[8], segment_size: 1, session_count: 1, total_actions: 1, version: 1 });
    }
    let mut mv = mk_memvid(toc, mk_header(65536));
    let delta: u64 = kani::any();
    kani::assume(delta >= 1 && delta < 1 << 40);
    mv.adjust_offsets_after_wal_growth(delta);
    let t = &mv.toc;
    assert!(t.frames[0].payload_offset == o[0] + delta, "[C01] WAL growth moved the payloads but not a frame's payload offset");
    if sections == 0 {
        assert!(t.time_index.as_ref().map(|m| m.bytes_offset) == Some(o[1] + delta), "[C01] WAL growth moved the time index but not its manifest offset");
        assert!(t.indexes.vec.as_ref().map(|m| m.bytes_offset) == Some(o[2] + delta), "[C01] WAL growth moved the vector index but not its manifest offset");
        assert!(t.indexes.lex.as_ref().map(|m| m.bytes_offset) == Some(o[3] + delta), "[C01] WAL growth moved the lexical index but not its manifest offset");
        assert!(t.segments[0].bytes_offset == o[9] + delta, "[C01] WAL growth moved a segment but not its recorded offset");
    } else {
        assert!(t.indexes.clip.as_ref().map(|m| m.bytes_offset) == Some(o[4] + delta), "[C01] WAL growth moved the CLIP index but not its manifest offset: the TOC written next points at the wrong bytes");
        assert!(t.memories_track.as_ref().map(|m| m.bytes_offset) == Some(o[5] + delta), "[C01] WAL growth moved the memories track but not its manifest offset: the TOC written next points at the wrong bytes");
        assert!(t.logic_mesh.as_ref().map(|m| m.bytes_offset) == Some(o[6] + delta), "[C01] WAL growth moved the logic mesh but not its manifest offset: the TOC written next points at the wrong bytes");
        assert!(t.sketch_track.as_ref().map(|m| m.bytes_offset) == Some(o[7] + delta), "[C01] WAL growth moved the sketch track but not its manifest offset: the next open fails with 'Invalid sketch track magic'");
        assert!(t.replay_manifest.as_ref().map(|m| m.segment_offset) == Some(o[8] + delta), "[C01] WAL growth moved the replay segment but not its manifest offset");
    }
    kani::cover!(true, "offsets adjusted");
    leak(mv);
}
verif_proof! { [C01 C40]
    #[kani::unwind(12)]
    #[kani::use_stub_set(crate::verif_env::memvid_stubs)]
    fn c01_wal_growth_shifts_frames_and_indexes() { growth_offsets_step(0); }
}
verif_proof! { [C01 C40 C27]
    #[kani::unwind(12)]
    #[kani::use_stub_set(crate::verif_env::memvid_stubs)]
    fn c01_wal_growth_shifts_tracks() { growth_offsets_step(1); }
}

// grow_wal_region / ensure_wal_capacity: the data is shifted while the header still describes
// the OLD log region (the shift computes its start from header.wal_size), then header, data_end,
// TOC offsets move by the same delta, then TOC+footer, header, fsync, and the log is reopened.
const G_SHIFT: u8 = 1;
const G_REWRITE: u8 = 2;
const G_PERSIST: u8 = 3;
const G_SYNC: u8 = 4;
const G_WALOPEN: u8 = 5;
static mut GLOG: [u8; 8] = [0; 8];
static mut GN: usize = 0;
static mut SHIFT_DELTA: u64 = 0;
static mut SHIFT_WAL_SIZE: u64 = 0;
static mut SHIFT_FRAME_OFF: u64 = 0;
static mut REWRITE_FRAME_OFF: u64 = 0;
static mut REWRITE_WAL_SIZE: u64 = 0;
static mut PERSIST_WAL_SIZE: u64 = 0;
static mut WALOPEN_SIZE: u64 = 0;
fn glog(k: u8) { unsafe { if GN < 8 { GLOG[GN] = k; } GN += 1; } }
fn gpos(k: u8) -> usize {
    let mut i = 0;
    let mut p = usize::MAX;
    while i < 8 { unsafe { if i < GN && GLOG[i] == k && p == usize::MAX { p = i; } } i += 1; }
    p
}
fn gg_shift(mv: &mut Memvid, delta: u64) -> Result<()> {
    glog(G_SHIFT);
    unsafe { SHIFT_DELTA = delta; SHIFT_WAL_SIZE = mv.header.wal_size; SHIFT_FRAME_OFF = mv.toc.frames[0].payload_offset; }
    Ok(())
}
fn gg_rewrite(mv: &mut Memvid) -> Result<()> {
    glog(G_REWRITE);
    unsafe { REWRITE_FRAME_OFF = mv.toc.frames[0].payload_offset; REWRITE_WAL_SIZE = mv.header.wal_size; }
    Ok(())
}
fn gg_persist(_f: &mut File, h: &crate::types::Header) -> Result<()> { glog(G_PERSIST); unsafe { PERSIST_WAL_SIZE = h.wal_size; } Ok(()) }
fn gg_sync(_f: &File) -> std::io::Result<()> { glog(G_SYNC); Ok(()) }
fn gg_wal_open(file: &File, header: &crate::types::Header) -> Result<EmbeddedWal> {
    glog(G_WALOPEN);
    unsafe { WALOPEN_SIZE = header.wal_size; }
    Ok(tagged_wal(file.as_raw_fd()))
}
#[cfg(kani)]
kani::stub_set!(growth_stubs,
    use_stub_set(crate::verif_env::memvid_stubs),
    stub(crate::memvid::lifecycle::Memvid::shift_data_for_wal_growth, crate::memvid::mutation::verif_mutation::gg_shift),
    stub(crate::memvid::lifecycle::Memvid::rewrite_toc_footer, crate::memvid::mutation::verif_mutation::gg_rewrite),
    stub(crate::persist_header, crate::memvid::mutation::verif_mutation::gg_persist),
    stub(std::fs::File::sync_all, crate::memvid::mutation::verif_mutation::gg_sync),
    stub(crate::io::wal::EmbeddedWal::open, crate::memvid::mutation::verif_mutation::gg_wal_open),
    stub(<std::os::fd::OwnedFd as core::ops::Drop>::drop, crate::memvid::mutation::verif_mutation::g_fd_drop),
    stub(alloc::fmt::format, crate::verif_env::stub_format),
);
fn growth_protocol(presize: bool) {
    let mut toc = crate::memvid::lifecycle::empty_toc();
    let off0 = any_off();
    let mut f = mk_frame(0, 0, FrameStatus::Active);
    f.payload_offset = off0;
    f.payload_length = 1;
    toc.frames.push(f);
    let wal0: u64 = if kani::any() { 65536 } else { 1 << 20 };
    let mut mv = mk_memvid(toc, mk_header(wal0));
    let end0: u64 = kani::any();
    kani::assume(end0 > off0 && end0 < 1 << 41);
    mv.data_end = end0;
    mv.header.footer_offset = end0;
    unsafe { GN = 0; SHIFT_DELTA = 0; }
    let want: u64 = kani::any();
    kani::assume(want >= 1 && want <= 1 << 24);
    // append_wal_entry asks for max(entry size, current size + 1): growth is only requested beyond the current size
    if !presize { kani::assume(want > wal0); }
    let old_wal = core::mem::replace(&mut mv.wal, tagged_wal(3));
    leak(old_wal);
    let r = if presize { mv.ensure_wal_capacity(want) } else { mv.grow_wal_region(want) };
    assert!(r.is_ok(), "[C01] growing the log region failed although nothing failed");
    let new = mv.header.wal_size;
    if presize && want <= wal0 {
        assert!(unsafe { GN } == 0 && new == wal0 && mv.toc.frames[0].payload_offset == off0, "[C40] pre-sizing to a size the log already has touched the file");
    } else {
        let delta = new - wal0;
        assert!(new > wal0 && new >= want && (presize || new > want), "[C01] the log region did not grow enough for the entry that did not fit");
        assert!(gpos(G_SHIFT) == 0 && unsafe { SHIFT_DELTA } == delta, "[C01] the data behind the log was not shifted by exactly the amount the log grew");
        assert!(unsafe { SHIFT_WAL_SIZE } == wal0 && unsafe { SHIFT_FRAME_OFF } == off0, "[C01] the data was shifted after the header/TOC were already updated: the shift starts at the wrong place (payload bytes are left behind and zero-filled)");
        assert!(mv.toc.frames[0].payload_offset == off0 + delta && mv.data_end == end0 + delta, "[C01] offsets do not follow the shifted data");
        assert!(mv.header.footer_offset >= mv.data_end, "[C01] footer placed inside the data after log growth");
        let (i_rw, i_ph, i_sy, i_wo) = (gpos(G_REWRITE), gpos(G_PERSIST), gpos(G_SYNC), gpos(G_WALOPEN));
        assert!(i_rw != usize::MAX && i_ph != usize::MAX && i_sy != usize::MAX && i_wo != usize::MAX, "[C01] log growth skipped the TOC rewrite, the header write, the fsync or reopening the log");
        assert!(i_rw < i_ph && i_ph < i_sy && i_sy < i_wo, "[C03] log growth steps out of order (TOC/footer, header, fsync, reopen log)");
        assert!(unsafe { REWRITE_FRAME_OFF } == off0 + delta && unsafe { REWRITE_WAL_SIZE } == new, "[C01] the TOC was rewritten before the offsets were adjusted");
        assert!(unsafe { PERSIST_WAL_SIZE } == new && unsafe { WALOPEN_SIZE } == new, "[C01] header persisted / log reopened with the old region size");
        kani::cover!(delta == 65536, "doubling from 64 KiB");
    }
    kani::cover!(true, "reached");
    leak(r);
    leak(mv);
}
verif_proof! { [C01 C03]
    #[kani::unwind(12)]
    #[kani::use_stub_set(crate::memvid::mutation::verif_mutation::growth_stubs)]
    fn c01_grow_wal_region_protocol() { growth_protocol(false); }
}
verif_proof! { [C40 C01 C03]
    #[kani::unwind(12)]
    #[kani::use_stub_set(crate::memvid::mutation::verif_mutation::growth_stubs)]
    fn c40_wal_presize_protocol() { growth_protocol(true); }
}
