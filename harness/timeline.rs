// Harnesses for src/memvid/timeline.rs.
#![allow(unused_imports, static_mut_refs, clippy::all, clippy::pedantic)]
use super::*;
use crate::verif_env::*;

#[path = "/verif/harness/playback/timeline.rs"]
mod playback;

fn stub_preview(_mv: &mut Memvid, _frame: &crate::types::Frame) -> Result<String> {
    Ok(String::new())
}
// the time index track as the commit wrote it: active frames sorted by (timestamp, id)
static mut TRACK: [(i64, u64); 3] = [(0, 0); 3];
static mut TRACK_N: usize = 0;
fn stub_read_track<R: std::io::Read + std::io::Seek>(_r: &mut R, _o: u64, _l: u64) -> Result<Vec<TimeIndexEntry>> {
    let mut v = Vec::new();
    unsafe {
        let mut i = 0;
        while i < TRACK_N {
            v.push(TimeIndexEntry::new(TRACK[i].0, TRACK[i].1));
            i += 1;
        }
    }
    Ok(v)
}

fn any_status() -> FrameStatus {
    let b: u8 = kani::any();
    kani::assume(b < 3);
    match b { 0 => FrameStatus::Active, 1 => FrameStatus::Deleted, _ => FrameStatus::Superseded }
}

fn before(a: (i64, u64), b: (i64, u64)) -> bool {
    a.0 < b.0 || (a.0 == b.0 && a.1 < b.1)
}

/// 3 frames (symbolic timestamp, status); the time index lists the frames that
/// were active at commit time, sorted; afterwards any frame may have been
/// deleted (status symbolic now). `with_index` = false: no time index manifest.
fn timeline_scenario(with_index: bool, image_role: bool) {
    let mut toc = crate::memvid::lifecycle::empty_toc();
    let mut ts = [0i64; 3];
    let mut st = [FrameStatus::Active; 3];
    let mut i = 0;
    while i < 3 {
        ts[i] = kani::any();
        st[i] = any_status();
        let mut f = mk_frame(i as u64, ts[i], st[i]);
        if image_role && i == 2 {
            f.role = FrameRole::ExtractedImage;
            f.parent_id = Some(0);
        }
        toc.frames.push(f);
        i += 1;
    }
    if with_index {
        // which frames are in the index (those committed as active): all except the image frame when image_role
        let n_idx = if image_role { 2 } else { 3 };
        // sort the indexed frames by (ts, id) — insertion sort on <= 3 items
        let mut order = [0usize, 1, 2];
        let mut a = 1;
        while a < n_idx {
            let mut b = a;
            while b > 0 && before((ts[order[b]], order[b] as u64), (ts[order[b - 1]], order[b - 1] as u64)) {
                let t = order[b]; order[b] = order[b - 1]; order[b - 1] = t;
                b -= 1;
            }
            a += 1;
        }
        unsafe {
            let mut k = 0;
            while k < n_idx {
                TRACK[k] = (ts[order[k]], order[k] as u64);
                k += 1;
            }
            TRACK_N = n_idx;
        }
        toc.time_index = Some(crate::types::TimeIndexManifest { bytes_offset: 0, bytes_length: 0, entry_count: n_idx as u64, checksum: [0; 32] });
    }
    let mut mv = mk_memvid(toc, mk_header(65536));
    let since: Option<i64> = kani::any();
    let until: Option<i64> = kani::any();
    let reverse: bool = kani::any();
    let lim: u64 = kani::any();
    kani::assume(lim <= 4);
    let limit = NonZeroU64::new(lim);
    let r = build_timeline(&mut mv, limit, since, until, reverse);
    match &r {
        Ok(v) => {
            // expected set: active frames within the inclusive bounds
            let mut want = [false; 3];
            let mut n_want = 0usize;
            let mut k = 0;
            while k < 3 {
                want[k] = st[k] == FrameStatus::Active && since.map_or(true, |s| ts[k] >= s) && until.map_or(true, |u| ts[k] <= u);
                if want[k] { n_want += 1; }
                k += 1;
            }
            let mut seen = [false; 3];
            let mut j = 0;
            while j < v.len() {
                let id = v[j].frame_id;
                assert!(id < 3, "[C15] timeline returned an unknown frame");
                let k = id as usize;
                assert!(st[k] == FrameStatus::Active, "[C15] timeline returned an inactive frame");
                assert!(since.map_or(true, |s| ts[k] >= s) && until.map_or(true, |u| ts[k] <= u), "[C15] timeline returned a frame outside the since/until bounds");
                assert!(!seen[k], "[C15] timeline returned a frame twice");
                seen[k] = true;
                assert!(v[j].timestamp == ts[k], "[C15] timeline entry carries a wrong timestamp");
                if j > 0 {
                    let p = v[j - 1].frame_id as usize;
                    if reverse {
                        assert!(before((ts[k], id), (ts[p], p as u64)), "[C15] reversed timeline is not in descending (timestamp, frame id) order");
                    } else {
                        assert!(before((ts[p], p as u64), (ts[k], id)), "[C15] timeline is not in ascending (timestamp, frame id) order");
                    }
                }
                j += 1;
            }
            if lim == 0 {
                assert!(v.len() == n_want, "[C15] unlimited timeline does not contain every active frame within the bounds exactly once");
            } else {
                assert!(v.len() <= lim as usize, "[C15] timeline returned more entries than the limit");
            }
            kani::cover!(v.len() == 3, "all three frames");
            kani::cover!(v.len() == 2 && reverse, "two frames reversed");
        }
        Err(_) => assert!(false, "[C15] timeline failed"),
    }
    leak(r);
    leak(mv);
}

verif_proof! { [C15 C08]
    #[kani::unwind(6)]
    #[kani::use_stub_set(crate::verif_env::memvid_stubs)]
    #[kani::stub(crate::memvid::lifecycle::Memvid::frame_preview, stub_preview)]
    #[kani::stub(crate::io::time_index::read_track, stub_read_track)]
    fn c15_timeline_with_index() { timeline_scenario(true, false); }
}
verif_proof! { [C15 C08]
    #[kani::unwind(6)]
    #[kani::use_stub_set(crate::verif_env::memvid_stubs)]
    #[kani::stub(crate::memvid::lifecycle::Memvid::frame_preview, stub_preview)]
    #[kani::stub(crate::io::time_index::read_track, stub_read_track)]
    fn c15_timeline_extracted_image() { timeline_scenario(true, true); }
}

/// Cheap window check (quick tier): `n` active frames with symbolic timestamps, no time
/// index manifest (entries come from the TOC), symbolic since/until, forward order,
/// no limit. Decides the inclusive-window obligation: a frame is in the timeline iff
/// since <= timestamp <= until.
fn timeline_window<const N: usize>(both_bounds: bool) {
    let mut toc = crate::memvid::lifecycle::empty_toc();
    let mut ts = [0i64; N];
    let mut i = 0;
    while i < N {
        ts[i] = kani::any();
        toc.frames.push(mk_frame(i as u64, ts[i], FrameStatus::Active));
        i += 1;
    }
    let mut mv = mk_memvid(toc, mk_header(65536));
    let s: i64 = kani::any();
    let u: i64 = kani::any();
    let (since, until) = if both_bounds { (Some(s), Some(u)) } else if kani::any() { (Some(s), None) } else { (None, Some(u)) };
    let r = build_timeline(&mut mv, None, since, until, false);
    match &r {
        Ok(v) => {
            let mut n_want = 0usize;
            let mut k = 0;
            while k < N {
                if since.map_or(true, |s| ts[k] >= s) && until.map_or(true, |u| ts[k] <= u) { n_want += 1; }
                k += 1;
            }
            let mut j = 0;
            while j < v.len() {
                let id = v[j].frame_id;
                assert!(id < N as u64, "[C15] timeline returned an unknown frame");
                let t = ts[id as usize];
                assert!(since.map_or(true, |s| t >= s) && until.map_or(true, |u| t <= u), "[C15] timeline returned a frame outside the since/until bounds");
                if j > 0 { assert!(v[j - 1].frame_id < id, "[C15] timeline lists a frame twice or out of TOC order (no index)"); }
                j += 1;
            }
            assert!(v.len() == n_want, "[C15] timeline does not contain every active frame within the inclusive since/until bounds exactly once");
            kani::cover!(v.len() == N, "all frames inside the window");
            kani::cover!(v.len() == 0, "window excludes everything");
        }
        Err(_) => assert!(false, "[C15] timeline failed"),
    }
    leak(r);
    leak(mv);
}
verif_proof! { [C15]
    #[kani::unwind(4)]
    #[kani::use_stub_set(crate::verif_env::memvid_stubs)]
    #[kani::stub(crate::memvid::lifecycle::Memvid::frame_preview, stub_preview)]
    #[kani::stub(<crate::types::Frame as core::clone::Clone>::clone, crate::verif_env::stub_frame_clone)]
    #[kani::stub(alloc::fmt::format, crate::verif_env::stub_format)]
    fn c15_timeline_window_both_bounds_1() { timeline_window::<1>(true); }
}
verif_proof! { [C15]
    #[kani::unwind(4)]
    #[kani::use_stub_set(crate::verif_env::memvid_stubs)]
    #[kani::stub(crate::memvid::lifecycle::Memvid::frame_preview, stub_preview)]
    #[kani::stub(<crate::types::Frame as core::clone::Clone>::clone, crate::verif_env::stub_frame_clone)]
    #[kani::stub(alloc::fmt::format, crate::verif_env::stub_format)]
    fn c15_timeline_window_one_bound_1() { timeline_window::<1>(false); }
}
verif_proof! { [C15]
    #[kani::unwind(5)]
    #[kani::use_stub_set(crate::verif_env::memvid_stubs)]
    #[kani::stub(crate::memvid::lifecycle::Memvid::frame_preview, stub_preview)]
    #[kani::stub(<crate::types::Frame as core::clone::Clone>::clone, crate::verif_env::stub_frame_clone)]
    #[kani::stub(alloc::fmt::format, crate::verif_env::stub_format)]
    fn c15_timeline_window_both_bounds_2() { timeline_window::<2>(true); }
}
