// Harnesses for src/memvid/acl.rs.
#![allow(unused_imports, static_mut_refs, clippy::all, clippy::pedantic)]
use super::*;
use crate::verif_env::*;
use crate::types::FrameStatus;

#[path = "/verif/harness/playback/acl.rs"]
mod playback;

// Per-frame verdicts handed out by the stubbed evaluator (arbitrary).
static mut ALLOW: [bool; 3] = [false; 3];
static mut CTX_SEEN: bool = false;
fn stub_evaluate(metadata: &BTreeMap<String, String>, context: Option<&NormalizedAclContext>) -> AclDecision {
    // the frame is identified by a marker the harness put into its metadata length
    unsafe {
        if context.is_some() { CTX_SEEN = true; }
        let k = metadata.len();
        if k < 3 && ALLOW[k] { AclDecision::allow() } else { AclDecision::deny_restricted() }
    }
}
// normalize_acl_context without serde_json/HashSet: tenant present <=> Some
static mut TENANT_OK: bool = false;
fn stub_normalize(context: Option<&AclContext>) -> Option<NormalizedAclContext> {
    let c = context?;
    if c.tenant_id.is_some() && unsafe { TENANT_OK } {
        Some(unsafe { core::mem::zeroed() })
    } else {
        None
    }
}

fn mk_hit(rank: usize, frame_id: u64) -> SearchHit {
    SearchHit { rank, frame_id, uri: String::new(), title: None, range: (0, 0), text: String::new(), matches: 0,
                chunk_range: None, chunk_text: None, score: None, metadata: None }
}

// C12: Enforce keeps exactly the allowed hits, in order, re-ranked 1..n; hits
// naming unknown frames are dropped; Enforce without a usable tenant is an
// error; Audit returns the hits unchanged.
verif_proof! { [C12]
    #[kani::unwind(5)]
    #[kani::use_stub_set(crate::verif_env::memvid_stubs)]
    #[kani::stub(evaluate_acl_metadata, stub_evaluate)]
    #[kani::stub(normalize_acl_context, stub_normalize)]
    fn c12_apply_acl_filter_and_rank() {
        let mut toc = crate::memvid::lifecycle::empty_toc();
        let mut i = 0;
        while i < 3 {
            let mut f = mk_frame(i as u64, 0, FrameStatus::Active);
            // marker: frame i carries i metadata entries
            let mut k = 0;
            while k < i {
                f.extra_metadata.insert(if k == 0 { "a".to_string() } else { "b".to_string() }, String::new());
                k += 1;
            }
            toc.frames.push(f);
            i += 1;
        }
        let mv = mk_memvid(toc, mk_header(65536));
        let allow: [bool; 3] = kani::any();
        unsafe { ALLOW = allow; TENANT_OK = kani::any(); }
        let ids: [u64; 3] = kani::any();
        kani::assume(ids[0] <= 3 && ids[1] <= 3 && ids[2] <= 3); // 3 = unknown frame
        let mut hits = vec![mk_hit(1, ids[0]), mk_hit(2, ids[1]), mk_hit(3, ids[2])];
        let enforce: bool = kani::any();
        let has_ctx: bool = kani::any();
        let has_tenant: bool = kani::any();
        let ctx = AclContext { tenant_id: if has_tenant { Some("t".to_string()) } else { None }, subject_id: None, roles: Vec::new(), group_ids: Vec::new() };
        let mode = if enforce { AclEnforcementMode::Enforce } else { AclEnforcementMode::Audit };
        let r = mv.apply_acl_to_search_hits(&mut hits, if has_ctx { Some(&ctx) } else { None }, mode);
        let usable = has_ctx && has_tenant && unsafe { TENANT_OK };
        match &r {
            Ok(_) => {
                if enforce {
                    assert!(usable, "[C12] Enforce without a tenant did not fail");
                    // expected survivors, in order
                    let mut want = [0u64; 3];
                    let mut n = 0;
                    let mut j = 0;
                    while j < 3 {
                        if ids[j] < 3 && allow[ids[j] as usize] {
                            want[n] = ids[j];
                            n += 1;
                        }
                        j += 1;
                    }
                    assert!(hits.len() <= n, "[C12] Enforce returned a hit for a frame the caller is denied (or an unknown frame)");
                    assert!(hits.len() >= n, "[C12] Enforce dropped an allowed hit");
                    let mut j = 0;
                    while j < n {
                        assert!(hits[j].frame_id == want[j], "[C12] Enforce changed the order of the allowed hits");
                        assert!(hits[j].rank == j + 1, "[C12] surviving hits are not ranked 1..n");
                        j += 1;
                    }
                    kani::cover!(n == 1, "two of three hits denied");
                } else {
                    assert!(hits.len() == 3 && hits[0].frame_id == ids[0] && hits[1].frame_id == ids[1] && hits[2].frame_id == ids[2], "[C12] Audit mode changed the hits");
                    assert!(hits[0].rank == 1 && hits[1].rank == 2 && hits[2].rank == 3, "[C12] Audit mode changed the ranks");
                    kani::cover!(usable, "audit with context");
                }
            }
            Err(_) => {
                assert!(enforce && !usable, "[C12] ACL filtering failed although a tenant was supplied (or in Audit mode)");
                kani::cover!(true, "enforce without tenant rejected");
            }
        }
        leak(r);
        leak(hits);
        leak(ctx);
        leak(mv);
    }
}

// C12 decision core: with the metadata parser replaced by an arbitrary parse
// result over a 2-word vocabulary, evaluate_acl_metadata allows only
// same-tenant frames that are public or name the caller's principal/role/group.
static mut PARSE_OK: bool = false;
static mut P_TENANT: u8 = 0;
static mut P_PUBLIC: bool = false;
static mut P_ROLE: u8 = 2; // 0/1 = word, 2 = none
static mut P_GROUP: u8 = 2;
static mut P_PRINC: u8 = 2;
fn word(k: u8) -> String {
    if k == 0 { "x".to_string() } else { "y".to_string() }
}
fn set_of(k: u8) -> HashSet<String> {
    let mut s = HashSet::new();
    if k < 2 { s.insert(word(k)); }
    s
}
fn stub_parse(_metadata: &BTreeMap<String, String>) -> std::result::Result<ParsedFrameAcl, ()> {
    unsafe {
        if !PARSE_OK { return Err(()); }
        Ok(ParsedFrameAcl {
            tenant_id: word(P_TENANT),
            visibility: if P_PUBLIC { FrameVisibility::Public } else { FrameVisibility::Restricted },
            roles: set_of(P_ROLE),
            groups: set_of(P_GROUP),
            principals: set_of(P_PRINC),
        })
    }
}
verif_proof! { [C12]
    #[kani::unwind(6)]
    #[kani::use_stub_set(crate::verif_env::memvid_stubs)]
    #[kani::stub(parse_acl_metadata, stub_parse)]
    fn c12_decision_core() {
        let pt: u8 = kani::any(); let pr: u8 = kani::any(); let pg: u8 = kani::any(); let pp: u8 = kani::any();
        kani::assume(pt < 2 && pr < 3 && pg < 3 && pp < 3);
        let parse_ok: bool = kani::any();
        let public: bool = kani::any();
        unsafe { PARSE_OK = parse_ok; P_TENANT = pt; P_PUBLIC = public; P_ROLE = pr; P_GROUP = pg; P_PRINC = pp; }
        let ct: u8 = kani::any(); let cs: u8 = kani::any(); let cr: u8 = kani::any(); let cg: u8 = kani::any();
        kani::assume(ct < 2 && cs < 3 && cr < 3 && cg < 3);
        let ctx = NormalizedAclContext { tenant_id: word(ct), subject_id: if cs < 2 { Some(word(cs)) } else { None }, roles: set_of(cr), group_ids: set_of(cg) };
        let md = BTreeMap::new();
        let d = evaluate_acl_metadata(&md, Some(&ctx));
        let matches = (cs < 2 && cs == pp) || (cr < 2 && cr == pr) || (cg < 2 && cg == pg);
        let should = parse_ok && ct == pt && (public || matches);
        if d.allowed {
            assert!(parse_ok, "[C12] a frame with missing/invalid ACL metadata was allowed");
            assert!(ct == pt, "[C12] a frame of another tenant was allowed");
            assert!(public || matches, "[C12] a restricted frame was allowed without a matching principal, role or group");
        } else {
            assert!(!should, "[C12] an allowed frame was denied");
        }
        kani::cover!(d.allowed && !public, "restricted frame allowed through a match");
        kani::cover!(!d.allowed && parse_ok && ct == pt, "restricted frame denied");
        leak(ctx);
    }
}
