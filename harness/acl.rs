// Harnesses for src/memvid/acl.rs.
#![allow(unused_imports, static_mut_refs, clippy::all, clippy::pedantic)]
use super::*;
use crate::verif_env::*;
use crate::types::FrameStatus;

#[path = "/verif/harness/playback/acl.rs"]
mod playback;

// Per-frame verdicts handed out by the stubbed evaluator (arbitrary).  The
// frame is recognised by the address of its metadata map.
static mut ALLOW: [bool; 3] = [false; 3];
static mut ADDR: [usize; 3] = [0; 3];
fn stub_evaluate(metadata: &BTreeMap<String, String>, _context: Option<&NormalizedAclContext>) -> AclDecision {
    unsafe {
        // the frame is the one frame_by_id has just cloned
        let _ = metadata;
        let k = LAST_CLONED_FRAME as usize;
        if k < 3 && ALLOW[k] { AclDecision::allow() } else { AclDecision::deny_restricted() }
    }
}
// normalize_acl_context without serde_json/HashSet: tenant present <=> Some
static mut TENANT_OK: bool = false;
fn stub_normalize(context: Option<&AclContext>) -> Option<NormalizedAclContext> {
    let c = context?;
    if c.tenant_id.is_some() && unsafe { TENANT_OK } {
        Some(NormalizedAclContext { tenant_id: String::new(), subject_id: None, roles: HashSet::new(), group_ids: HashSet::new() })
    } else {
        None
    }
}

// SearchHit::clone as a copy of rank and frame id (the harness hits carry empty strings and no
// metadata; the real clone walks an Option<metadata> with maps CBMC cannot see to be absent)
fn g_hit_clone(h: &SearchHit) -> SearchHit { mk_hit(h.rank, h.frame_id) }
fn mk_hit(rank: usize, frame_id: u64) -> SearchHit {
    SearchHit { rank, frame_id, uri: String::new(), title: None, range: (0, 0), text: String::new(), matches: 0,
                chunk_range: None, chunk_text: None, score: None, metadata: None }
}

// C12: Enforce keeps exactly the allowed hits, in order, re-ranked 1..n; hits
// naming unknown frames are dropped; Enforce without a usable tenant is an
// error; Audit returns the hits unchanged.
verif_proof! { [C12]
    #[kani::unwind(4)]
    #[kani::use_stub_set(crate::verif_env::memvid_stubs)]
    #[kani::stub(evaluate_acl_metadata, stub_evaluate)]
    #[kani::stub(normalize_acl_context, stub_normalize)]
    #[kani::stub(<crate::types::Frame as core::clone::Clone>::clone, crate::verif_env::stub_frame_clone)]
    #[kani::stub(<crate::types::SearchHit as core::clone::Clone>::clone, g_hit_clone)]
    #[kani::stub(alloc::fmt::format, crate::verif_env::stub_format)]
    fn c12_apply_acl_filter_and_rank() {
        // 2 frames, 2 hits (each naming frame 0, 1 or an unknown frame): straight-line harness code
        let mut toc = crate::memvid::lifecycle::empty_toc();
        toc.frames.push(mk_frame(0, 0, FrameStatus::Active));
        toc.frames.push(mk_frame(1, 0, FrameStatus::Active));
        let mv = mk_memvid(toc, mk_header(65536));
        let allow: [bool; 3] = kani::any();
        kani::assume(!allow[2]);
        unsafe {
            ALLOW = allow;
            TENANT_OK = kani::any();
            LAST_CLONED_FRAME = u64::MAX;
        }
        let ids: [u64; 2] = kani::any();
        kani::assume(ids[0] <= 2 && ids[1] <= 2); // 2 = unknown frame
        let mut hits = Vec::with_capacity(2);
        hits.push(mk_hit(1, ids[0]));
        hits.push(mk_hit(2, ids[1]));
        let enforce: bool = kani::any();
        let has_ctx: bool = kani::any();
        let has_tenant: bool = kani::any();
        let ctx = AclContext { tenant_id: if has_tenant { Some(String::new()) } else { None }, subject_id: None, roles: Vec::new(), group_ids: Vec::new() };
        let mode = if enforce { AclEnforcementMode::Enforce } else { AclEnforcementMode::Audit };
        let r = mv.apply_acl_to_search_hits(&mut hits, if has_ctx { Some(&ctx) } else { None }, mode);
        let usable = has_ctx && has_tenant && unsafe { TENANT_OK };
        let ok0 = ids[0] < 2 && allow[ids[0] as usize];
        let ok1 = ids[1] < 2 && allow[ids[1] as usize];
        match &r {
            Ok(_) => {
                if enforce {
                    assert!(usable, "[C12] Enforce without a tenant did not fail");
                    let n = (ok0 as usize) + (ok1 as usize);
                    assert!(hits.len() <= n, "[C12] Enforce returned a hit for a frame the caller is denied (or an unknown frame)");
                    assert!(hits.len() >= n, "[C12] Enforce dropped an allowed hit");
                    if n == 2 {
                        assert!(hits[0].frame_id == ids[0] && hits[1].frame_id == ids[1], "[C12] Enforce changed the order of the allowed hits");
                        assert!(hits[0].rank == 1 && hits[1].rank == 2, "[C12] surviving hits are not ranked 1..n");
                    } else if n == 1 {
                        assert!(hits[0].frame_id == if ok0 { ids[0] } else { ids[1] }, "[C12] Enforce kept the wrong hit");
                        assert!(hits[0].rank == 1, "[C12] surviving hits are not ranked 1..n");
                    }
                    kani::cover!(n == 1 && ok1, "first hit denied, second re-ranked to 1");
                } else {
                    assert!(hits.len() == 2 && hits[0].frame_id == ids[0] && hits[1].frame_id == ids[1], "[C12] Audit mode changed the hits");
                    assert!(hits[0].rank == 1 && hits[1].rank == 2, "[C12] Audit mode changed the ranks");
                    kani::cover!(usable, "audit with context");
                }
            }
            Err(_) => {
                assert!(enforce && !usable, "[C12] ACL filtering failed although a tenant was supplied (or in Audit mode)");
                kani::cover!(true, "enforce without tenant rejected");
            }
        }
        leak(r);
        leak(hits);
        leak(ctx);
        leak(mv);
    }
}

// C12 decision core: the metadata parser is replaced by a parse result whose
// string sets are concrete per harness instance (hashing symbolic strings is
// intractable); tenant equality, visibility and parse success stay symbolic.
// MATCH: 0 = nothing matches, 1 = role matches, 2 = group matches, 3 = principal matches.
static mut PARSE_OK: bool = false;
static mut P_TENANT_Y: bool = false;
static mut P_PUBLIC: bool = false;
static mut P_MATCH: u8 = 0;
fn one(w: &str) -> HashSet<String> {
    let mut s = HashSet::new();
    s.insert(w.to_string());
    s
}
fn stub_parse(_metadata: &BTreeMap<String, String>) -> std::result::Result<ParsedFrameAcl, ()> {
    unsafe {
        if !PARSE_OK { return Err(()); }
        Ok(ParsedFrameAcl {
            tenant_id: if P_TENANT_Y { "y".to_string() } else { "x".to_string() },
            visibility: if P_PUBLIC { FrameVisibility::Public } else { FrameVisibility::Restricted },
            // P_MATCH == 4: the frame allows GROUP "r" and ROLE "g" — the caller has ROLE "r" and GROUP "g":
            // same words, other namespace: no legitimate match
            roles: if P_MATCH == 1 { one("r") } else if P_MATCH == 4 { one("g") } else { one("other") },
            groups: if P_MATCH == 2 { one("g") } else if P_MATCH == 4 { one("r") } else { HashSet::new() },
            principals: if P_MATCH == 3 { one("p") } else { one("q") },
        })
    }
}
fn decision_core(m: u8) {
    let parse_ok: bool = kani::any();
    let public: bool = kani::any();
    let frame_tenant_y: bool = kani::any();
    unsafe { PARSE_OK = parse_ok; P_TENANT_Y = frame_tenant_y; P_PUBLIC = public; P_MATCH = m; }
    let ctx_tenant_y: bool = kani::any();
    let ctx = NormalizedAclContext {
        tenant_id: if ctx_tenant_y { "y".to_string() } else { "x".to_string() },
        subject_id: Some("p".to_string()),
        roles: one("r"),
        group_ids: one("g"),
    };
    let md = BTreeMap::new();
    let d = evaluate_acl_metadata(&md, Some(&ctx));
    let same_tenant = ctx_tenant_y == frame_tenant_y;
    let matches = m != 0 && m != 4;
    let should = parse_ok && same_tenant && (public || matches);
    if d.allowed {
        assert!(parse_ok, "[C12] a frame with missing/invalid ACL metadata was allowed");
        assert!(same_tenant, "[C12] a frame of another tenant was allowed");
        assert!(public || matches, "[C12] a restricted frame was allowed without a matching principal, role or group");
    } else {
        assert!(!should, "[C12] an allowed frame was denied");
    }
    kani::cover!(d.allowed, "allowed");
    kani::cover!(!d.allowed && parse_ok, "denied with valid metadata");
    leak(ctx);
}
verif_proof! { [C12]
    #[kani::unwind(2)]
    #[kani::use_stub_set(crate::verif_env::memvid_stubs)]
    #[kani::use_stub_set(crate::verif_env::constant_hash_stubs)]
    #[kani::stub(parse_acl_metadata, stub_parse)]
    fn c12_decision_no_match() { decision_core(0); }
}
verif_proof! { [C12]
    #[kani::unwind(2)]
    #[kani::use_stub_set(crate::verif_env::memvid_stubs)]
    #[kani::use_stub_set(crate::verif_env::constant_hash_stubs)]
    #[kani::stub(parse_acl_metadata, stub_parse)]
    fn c12_decision_role_match() { decision_core(1); }
}
verif_proof! { [C12]
    #[kani::unwind(2)]
    #[kani::use_stub_set(crate::verif_env::memvid_stubs)]
    #[kani::use_stub_set(crate::verif_env::constant_hash_stubs)]
    #[kani::stub(parse_acl_metadata, stub_parse)]
    fn c12_decision_group_match() { decision_core(2); }
}
verif_proof! { [C12]
    #[kani::unwind(2)]
    #[kani::use_stub_set(crate::verif_env::memvid_stubs)]
    #[kani::use_stub_set(crate::verif_env::constant_hash_stubs)]
    #[kani::stub(parse_acl_metadata, stub_parse)]
    fn c12_decision_principal_match() { decision_core(3); }
}
verif_proof! { [C12]
    #[kani::unwind(2)]
    #[kani::use_stub_set(crate::verif_env::memvid_stubs)]
    #[kani::use_stub_set(crate::verif_env::constant_hash_stubs)]
    #[kani::stub(parse_acl_metadata, stub_parse)]
    fn c12_decision_cross_namespace() { decision_core(4); }
}

// C12 decision order with EMPTY role/group/principal sets on both sides (cheap: no string
// hashing): tenant isolation comes before visibility; missing/invalid metadata is denied;
// a restricted frame without any grant is denied.
fn stub_parse_empty_sets(_metadata: &BTreeMap<String, String>) -> std::result::Result<ParsedFrameAcl, ()> {
    unsafe {
        if !PARSE_OK { return Err(()); }
        Ok(ParsedFrameAcl {
            tenant_id: if P_TENANT_Y { "y".to_string() } else { "x".to_string() },
            visibility: if P_PUBLIC { FrameVisibility::Public } else { FrameVisibility::Restricted },
            roles: HashSet::new(),
            groups: HashSet::new(),
            principals: HashSet::new(),
        })
    }
}
verif_proof! { [C12]
    #[kani::unwind(4)]
    #[kani::use_stub_set(crate::verif_env::memvid_stubs)]
    #[kani::stub(parse_acl_metadata, stub_parse_empty_sets)]
    fn c12_decision_tenant_and_visibility() {
        let parse_ok: bool = kani::any();
        let public: bool = kani::any();
        let frame_tenant_y: bool = kani::any();
        unsafe { PARSE_OK = parse_ok; P_TENANT_Y = frame_tenant_y; P_PUBLIC = public; }
        let ctx_tenant_y: bool = kani::any();
        let has_subject: bool = kani::any();
        let ctx = NormalizedAclContext {
            tenant_id: if ctx_tenant_y { "y".to_string() } else { "x".to_string() },
            subject_id: if has_subject { Some("p".to_string()) } else { None },
            roles: HashSet::new(),
            group_ids: HashSet::new(),
        };
        let md = BTreeMap::new();
        let d = evaluate_acl_metadata(&md, Some(&ctx));
        let same_tenant = ctx_tenant_y == frame_tenant_y;
        if d.allowed {
            assert!(parse_ok, "[C12] a frame with missing/invalid ACL metadata was allowed");
            assert!(same_tenant, "[C12] a frame of another tenant was allowed");
            assert!(public, "[C12] a restricted frame was allowed without a matching principal, role or group");
        } else {
            assert!(!(parse_ok && same_tenant && public), "[C12] a public frame of the caller's tenant was denied");
            if parse_ok && !same_tenant { assert!(d.cross_tenant_denied, "[C12] cross-tenant denial not recorded as such"); }
            if !parse_ok { assert!(d.missing_metadata_denied, "[C12] missing-metadata denial not recorded as such"); }
        }
        // no context at all: nothing is filtered
        let open = evaluate_acl_metadata(&md, None);
        assert!(open.allowed, "[C12] evaluation without a caller context denied a frame");
        kani::cover!(d.allowed, "allowed");
        kani::cover!(!d.allowed && parse_ok && same_tenant, "restricted frame denied");
        leak(ctx);
        leak(md);
    }
}
