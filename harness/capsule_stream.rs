// harnesses for src/encryption/capsule_stream.rs (child module: sees private items of its parent)
