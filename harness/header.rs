// Harnesses for src/io/header.rs (child module of memvid_core::io::header).
#![allow(unused_imports, clippy::all, clippy::pedantic)]
use super::*;
use crate::verif_env::*;

fn any_header() -> Header {
    Header {
        magic: kani::any(),
        version: kani::any(),
        footer_offset: kani::any(),
        wal_offset: kani::any(),
        wal_size: kani::any(),
        wal_checkpoint_pos: kani::any(),
        wal_sequence: kani::any(),
        toc_checksum: kani::any(),
    }
}

fn same_header(a: &Header, b: &Header) -> bool {
    let mut same = a.magic == b.magic
        && a.version == b.version
        && a.footer_offset == b.footer_offset
        && a.wal_offset == b.wal_offset
        && a.wal_size == b.wal_size
        && a.wal_checkpoint_pos == b.wal_checkpoint_pos
        && a.wal_sequence == b.wal_sequence;
    let mut i = 0;
    while i < 32 {
        if a.toc_checksum[i] != b.toc_checksum[i] {
            same = false;
        }
        i += 1;
    }
    same
}

// C30: decode(encode(h)) == h for every header that encode accepts; encode
// accepts exactly the headers with the documented validity predicate.
verif_proof! { [C30]
    #[kani::unwind(34)]
    fn c30_header_encode_decode() {
        let h = any_header();
        let valid = h.magic == MAGIC && h.version == EXPECTED_VERSION && h.wal_offset >= WAL_OFFSET && h.wal_size != 0;
        let enc = HeaderCodec::encode(&h);
        match &enc {
            Ok(bytes) => {
                assert!(valid, "[C30] encode accepted an invalid header");
                let dec = HeaderCodec::decode(bytes);
                match &dec {
                    Ok(g) => assert!(same_header(&h, g), "[C30] header decode(encode(h)) != h"),
                    Err(_) => assert!(false, "[C30] header decode rejected an encoded header"),
                }
                kani::cover!(dec.is_ok(), "roundtrip reached");
                leak(dec);
            }
            Err(_) => assert!(!valid, "[C30] encode rejected a valid header"),
        }
        leak(enc);
    }
}

// C30/C22: decode on an arbitrary 4 KiB image never panics; when it accepts,
// the image has the right magic/version/spec bytes and legal WAL geometry, and
// re-encoding reproduces every defined byte (0..80) of the image.
verif_proof! { [C30 C22]
    #[kani::unwind(82)]
    fn c30_header_decode_arbitrary() {
        let bytes: [u8; HEADER_SIZE] = kani::any();
        let dec = HeaderCodec::decode(&bytes);
        match &dec {
            Ok(h) => {
                assert!(bytes[0] == b'M' && bytes[1] == b'V' && bytes[2] == b'2' && bytes[3] == 0, "[C30] decode accepted wrong magic");
                assert!(bytes[4] == SPEC_MINOR && bytes[5] == SPEC_MAJOR, "[C30] decode accepted wrong version");
                assert!(bytes[6] == SPEC_MAJOR && bytes[7] == SPEC_MINOR, "[C30] decode accepted wrong spec bytes");
                assert!(h.wal_offset >= WAL_OFFSET && h.wal_size != 0, "[C30] decode accepted illegal wal geometry");
                let re = HeaderCodec::encode(h);
                match &re {
                    Ok(b2) => {
                        let mut i = 0;
                        while i < TOC_CHECKSUM_END {
                            assert!(b2[i] == bytes[i], "[C30] encode(decode(img)) differs from img in a defined byte");
                            i += 1;
                        }
                    }
                    Err(_) => assert!(false, "[C30] encode rejected a decoded header"),
                }
                kani::cover!(re.is_ok(), "accepted image reached");
                leak(re);
            }
            Err(_) => {}
        }
        leak(dec);
    }
}

// C18: the read-only open path decodes the header through a reader that has no Write
// capability at all (HeaderCodec::read_without_repair), and gets the same header the
// repairing reader would return for a file with legacy lock bytes.
struct RoImage { bytes: [u8; HEADER_SIZE], pos: u64 }
impl std::io::Read for RoImage {
    fn read(&mut self, buf: &mut [u8]) -> std::io::Result<usize> {
        let p = self.pos as usize;
        if p >= HEADER_SIZE { return Ok(0); }
        let n = core::cmp::min(buf.len(), HEADER_SIZE - p);
        unsafe { core::ptr::copy_nonoverlapping(self.bytes.as_ptr().add(p), buf.as_mut_ptr(), n); }
        self.pos += n as u64;
        Ok(n)
    }
}
impl std::io::Seek for RoImage {
    fn seek(&mut self, pos: SeekFrom) -> std::io::Result<u64> { if let SeekFrom::Start(p) = pos { self.pos = p; } Ok(self.pos) }
}
verif_proof! { [C18]
    #[kani::unwind(62)]
    fn c18_header_read_without_repair() {
        let h = Header { magic: MAGIC, version: EXPECTED_VERSION, footer_offset: kani::any(), wal_offset: WAL_OFFSET, wal_size: 65536,
                         wal_checkpoint_pos: kani::any(), wal_sequence: kani::any(), toc_checksum: [7u8; 32] };
        let enc = HeaderCodec::encode(&h);
        let mut bytes = match enc { Ok(b) => b, Err(e) => { leak(e); return; } };
        let legacy: [u8; 4] = kani::any();
        let at: usize = kani::any();
        kani::assume(at >= LEGACY_LOCK_REGION_START && at <= LEGACY_LOCK_REGION_END - 4);
        bytes[at] = legacy[0]; bytes[at + 1] = legacy[1]; bytes[at + 2] = legacy[2]; bytes[at + 3] = legacy[3];
        let mut img = RoImage { bytes, pos: 0 };
        let r = HeaderCodec::read_without_repair(&mut img);
        match &r {
            Ok(g) => {
                assert!(same_header(&h, g), "[C18] read-only header read returned a different header");
                let mut i = 0;
                while i < 4 {
                    assert!(img.bytes[at + i] == legacy[i], "[C18] read-only header read changed the image");
                    i += 1;
                }
            }
            Err(_) => assert!(false, "[C18] read-only header read rejected a valid header with legacy lock bytes"),
        }
        kani::cover!(legacy[0] != 0, "legacy bytes present");
        leak(r);
    }
}
