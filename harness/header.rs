// Harnesses for src/io/header.rs (child module of memvid_core::io::header).
#![allow(unused_imports, clippy::all, clippy::pedantic)]
use super::*;
use crate::verif_env::*;

fn any_header() -> Header {
    Header {
        magic: kani::any(),
        version: kani::any(),
        footer_offset: kani::any(),
        wal_offset: kani::any(),
        wal_size: kani::any(),
        wal_checkpoint_pos: kani::any(),
        wal_sequence: kani::any(),
        toc_checksum: kani::any(),
    }
}

fn same_header(a: &Header, b: &Header) -> bool {
    let mut same = a.magic == b.magic
        && a.version == b.version
        && a.footer_offset == b.footer_offset
        && a.wal_offset == b.wal_offset
        && a.wal_size == b.wal_size
        && a.wal_checkpoint_pos == b.wal_checkpoint_pos
        && a.wal_sequence == b.wal_sequence;
    let mut i = 0;
    while i < 32 {
        if a.toc_checksum[i] != b.toc_checksum[i] {
            same = false;
        }
        i += 1;
    }
    same
}

// C30: decode(encode(h)) == h for every header that encode accepts; encode
// accepts exactly the headers with the documented validity predicate.
verif_proof! { [C30]
    #[kani::unwind(34)]
    fn c30_header_encode_decode() {
        let h = any_header();
        let valid = h.magic == MAGIC && h.version == EXPECTED_VERSION && h.wal_offset >= WAL_OFFSET && h.wal_size != 0;
        let enc = HeaderCodec::encode(&h);
        match &enc {
            Ok(bytes) => {
                assert!(valid, "[C30] encode accepted an invalid header");
                let dec = HeaderCodec::decode(bytes);
                match &dec {
                    Ok(g) => assert!(same_header(&h, g), "[C30] header decode(encode(h)) != h"),
                    Err(_) => assert!(false, "[C30] header decode rejected an encoded header"),
                }
                kani::cover!(dec.is_ok(), "roundtrip reached");
                leak(dec);
            }
            Err(_) => assert!(!valid, "[C30] encode rejected a valid header"),
        }
        leak(enc);
    }
}

// C30/C22: decode on an arbitrary 4 KiB image never panics; when it accepts,
// the image has the right magic/version/spec bytes and legal WAL geometry, and
// re-encoding reproduces every defined byte (0..80) of the image.
verif_proof! { [C30 C22]
    #[kani::unwind(82)]
    fn c30_header_decode_arbitrary() {
        let bytes: [u8; HEADER_SIZE] = kani::any();
        let dec = HeaderCodec::decode(&bytes);
        match &dec {
            Ok(h) => {
                assert!(bytes[0] == b'M' && bytes[1] == b'V' && bytes[2] == b'2' && bytes[3] == 0, "[C30] decode accepted wrong magic");
                assert!(bytes[4] == SPEC_MINOR && bytes[5] == SPEC_MAJOR, "[C30] decode accepted wrong version");
                assert!(bytes[6] == SPEC_MAJOR && bytes[7] == SPEC_MINOR, "[C30] decode accepted wrong spec bytes");
                assert!(h.wal_offset >= WAL_OFFSET && h.wal_size != 0, "[C30] decode accepted illegal wal geometry");
                let re = HeaderCodec::encode(h);
                match &re {
                    Ok(b2) => {
                        let mut i = 0;
                        while i < TOC_CHECKSUM_END {
                            assert!(b2[i] == bytes[i], "[C30] encode(decode(img)) differs from img in a defined byte");
                            i += 1;
                        }
                    }
                    Err(_) => assert!(false, "[C30] encode rejected a decoded header"),
                }
                kani::cover!(re.is_ok(), "accepted image reached");
                leak(re);
            }
            Err(_) => {}
        }
        leak(dec);
    }
}
