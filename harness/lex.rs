// Harnesses for src/lex.rs (child module of memvid_core::lex).
#![allow(unused_imports, clippy::all, clippy::pedantic)]
use super::*;
use crate::verif_env::*;

#[path = "/verif/harness/playback/lex.rs"]
mod playback;

/// The statement of C35, verbatim, for one result.
fn check_slices(content: &str, slices: &Vec<(usize, usize)>, max: usize) {
    assert!(slices.len() <= max, "[C35] more snippet slices than the maximum");
    let mut i = 0;
    while i < slices.len() {
        let (s, e) = slices[i];
        assert!(s < e, "[C35] empty snippet slice");
        assert!(e <= content.len(), "[C35] snippet slice outside the text");
        assert!(content.is_char_boundary(s) && content.is_char_boundary(e), "[C35] snippet slice not on character boundaries");
        if i > 0 {
            assert!(slices[i - 1].0 < s && slices[i - 1].1 <= s, "[C35] snippet slices overlap or are not strictly increasing");
        }
        let piece = &content[s..e];
        assert!(piece.len() == e - s, "[C35] slicing the text with a snippet range failed");
        i += 1;
    }
}

fn ascii_content<const N: usize>() -> [u8; N] {
    let raw: [u8; N] = kani::any();
    let mut i = 0;
    while i < N {
        kani::assume(raw[i] == b'a' || raw[i] == b'.' || raw[i] == b' ' || raw[i] == b'\n');
        i += 1;
    }
    raw
}

// ASCII text (concrete: symbolic text bytes make the UTF-8 decoder in char_indices intractable),
// two arbitrary occurrences (any usize that cannot overflow `end + window/2`), window >= 1, max >= 1
// — the domain the search paths can produce (they clamp window >= 80).
fn ascii_one_occurrence(content: &str) {
    let occ: [(usize, usize); 1] = kani::any();
    kani::assume(occ[0].1 <= usize::MAX / 2);
    let window: usize = kani::any();
    kani::assume(window >= 1 && window <= 16);
    let max: usize = kani::any();
    kani::assume(max >= 1);
    let slices = compute_snippet_slices(content, &occ, window, max);
    check_slices(content, &slices, max);
    kani::cover!(slices.len() == 1 && slices[0].0 > 0, "snippet not starting at 0");
    leak(slices);
}
fn ascii_two_occurrences(content: &str) {
    let occ: [(usize, usize); 2] = kani::any();
    kani::assume(occ[0].0 <= 8 && occ[0].1 <= 8 && occ[1].0 <= 8 && occ[1].1 <= 8);
    let window: usize = kani::any();
    kani::assume(window >= 1 && window <= 4);
    let max: usize = kani::any();
    kani::assume(max >= 1 && max <= 3);
    let slices = compute_snippet_slices(content, &occ, window, max);
    check_slices(content, &slices, max);
    kani::cover!(slices.len() == 1, "merged into one snippet");
    leak(slices);
}
verif_proof! { [C35 C10]
    #[kani::unwind(8)]
    fn c35_ascii_sentences() { ascii_one_occurrence("a. b."); }
}
verif_proof! { [C35 C10]
    #[kani::unwind(8)]
    fn c35_ascii_newline() { ascii_one_occurrence("ab\ncd"); }
}
verif_proof! { [C35 C10]
    #[kani::unwind(8)]
    fn c35_ascii_no_terminator() { ascii_one_occurrence("abcde"); }
}
verif_proof! { [C35 C10]
    #[kani::unwind(8)]
    fn c35_ascii_two_occurrences() { ascii_two_occurrences("a. b."); }
}

// multi-byte text (1-, 2- and 3-byte characters), one arbitrary occurrence
verif_proof! { [C35 C10]
    #[kani::unwind(10)]
    fn c35_multibyte_one_occurrence() {
        let content = "a\u{e9}. \u{20ac}b";
        let occ: [(usize, usize); 1] = kani::any();
        kani::assume(occ[0].1 <= usize::MAX / 2);
        let window: usize = kani::any();
        kani::assume(window >= 1 && window <= 16);
        let max: usize = kani::any();
        kani::assume(max >= 1);
        let slices = compute_snippet_slices(content, &occ, window, max);
        check_slices(content, &slices, max);
        kani::cover!(slices.len() == 1 && slices[0].0 > 0, "snippet not starting at 0");
        leak(slices);
    }
}

// two far-apart occurrences in a longer text: strictly increasing, non-overlapping, <= max
verif_proof! { [C35 C10]
    #[kani::unwind(28)]
    fn c35_two_snippets_long_text() {
        let content = "aa aaaa aaaa aaaa aaaa aa.";
        let occ: [(usize, usize); 2] = kani::any();
        kani::assume(occ[0].1 <= 64 && occ[1].1 <= 64 && occ[0].0 <= 64 && occ[1].0 <= 64);
        let window: usize = kani::any();
        kani::assume(window >= 1 && window <= 4);
        let max: usize = kani::any();
        kani::assume(max >= 1 && max <= 3);
        let slices = compute_snippet_slices(content, &occ, window, max);
        check_slices(content, &slices, max);
        kani::cover!(slices.len() == 2, "two separate snippets");
        leak(slices);
    }
}

// Known-class probes: parts of the statement's quantifier that the search
// paths cannot reach (window 0, maximum 0, offsets near usize::MAX).
verif_proof! { [C35]
    #[kani::unwind(8)]
    fn c35_window_zero() {
        let content = "a.b";
        let occ: [(usize, usize); 1] = kani::any();
        let n_occ: usize = kani::any();
        kani::assume(n_occ <= 1 && occ[0].1 <= usize::MAX / 2);
        let slices = compute_snippet_slices(content, &occ[..n_occ], 0, 3);
        check_slices(content, &slices, 3);
        leak(slices);
    }
}
verif_proof! { [C35]
    #[kani::unwind(8)]
    fn c35_max_zero() {
        let content = "a.b";
        let occ: [(usize, usize); 1] = kani::any();
        kani::assume(occ[0].1 <= usize::MAX / 2);
        let slices = compute_snippet_slices(content, &occ, 4, 0);
        check_slices(content, &slices, 0);
        leak(slices);
    }
}
verif_proof! { [C35]
    #[kani::unwind(8)]
    fn c35_huge_offsets() {
        let content = "a.b";
        let occ: [(usize, usize); 1] = kani::any();
        let window: usize = kani::any();
        kani::assume(window >= 1);
        let slices = compute_snippet_slices(content, &occ, window, 2);
        check_slices(content, &slices, 2);
        leak(slices);
    }
}
