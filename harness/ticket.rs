// Harnesses for src/memvid/ticket.rs.
#![allow(unused_imports, static_mut_refs, deprecated, clippy::all, clippy::pedantic)]
use super::*;
use crate::verif_env::*;

#[path = "/verif/harness/playback/ticket.rs"]
mod playback;

// ghost persistence: order of calls and injected outcomes
static mut CALLS: [u8; 6] = [0; 6];
static mut NCALLS: usize = 0;
static mut REWRITE_FAILS: bool = false;
static mut PERSISTED_SEQ: i64 = 0;
fn note(k: u8) {
    unsafe {
        if NCALLS < 6 { CALLS[NCALLS] = k; }
        NCALLS += 1;
    }
}
fn ghost_rewrite(mv: &mut Memvid) -> Result<()> {
    note(1);
    unsafe {
        PERSISTED_SEQ = mv.toc.ticket_ref.seq_no;
        if REWRITE_FAILS {
            return Err(MemvidError::CheckpointFailed { reason: "injected".into() });
        }
    }
    Ok(())
}
fn ghost_persist_header(_f: &mut std::fs::File, _h: &crate::types::Header) -> Result<()> {
    note(2);
    Ok(())
}
fn ghost_sync(_f: &std::fs::File) -> std::io::Result<()> {
    note(3);
    Ok(())
}
static mut SIG_OK: bool = false;
fn ghost_verify(_k: &ed25519_dalek::VerifyingKey, _m: &uuid::Uuid, _i: &str, _s: i64, _e: u64, _c: Option<u64>, _sig: &[u8]) -> Result<()> {
    if unsafe { SIG_OK } { Ok(()) } else { Err(MemvidError::TicketSignatureInvalid { reason: "injected".into() }) }
}
fn ghost_parse_key(_s: &str) -> Result<ed25519_dalek::VerifyingKey> {
    Ok(unsafe { core::mem::zeroed() })
}

fn setup(current_seq: i64, cap: u64, bound_to: Option<u128>) -> Memvid {
    let mut toc = crate::memvid::lifecycle::empty_toc();
    toc.ticket_ref.seq_no = current_seq;
    toc.ticket_ref.capacity_bytes = cap;
    toc.ticket_ref.issuer = String::new();
    if let Some(id) = bound_to {
        toc.memory_binding = Some(crate::types::MemoryBinding {
            memory_id: uuid::Uuid::from_u128(id),
            memory_name: String::new(),
            bound_at: chrono::DateTime::UNIX_EPOCH,
            api_url: String::new(),
        });
    }
    unsafe { NCALLS = 0; }
    mk_memvid(toc, mk_header(65536))
}

verif_proof! { [C25]
    #[kani::unwind(4)]
    #[kani::use_stub_set(crate::verif_env::memvid_stubs)]
    #[kani::stub(crate::memvid::lifecycle::Memvid::rewrite_toc_footer, ghost_rewrite)]
    #[kani::stub(crate::persist_header, ghost_persist_header)]
    #[kani::stub(std::fs::File::sync_all, ghost_sync)]
    #[kani::stub(alloc::fmt::format, crate::verif_env::stub_format)]
    fn c25_unsigned_ticket_sequence() {
        let cur: i64 = kani::any();
        kani::assume(cur < i64::MAX);
        let cap0: u64 = kani::any();
        let mut mv = setup(cur, cap0, None);
        let gen0: u64 = kani::any();
        mv.generation = gen0;
        unsafe { REWRITE_FAILS = kani::any(); }
        let seq: i64 = kani::any();
        let cap: Option<u64> = kani::any();
        let t = Ticket { issuer: String::new(), seq_no: seq, expires_in_secs: kani::any(), capacity_bytes: cap };
        let r = mv.apply_ticket(t);
        match &r {
            Ok(()) => {
                assert!(seq > cur, "[C25] a ticket whose sequence number is not greater than the last accepted one was accepted");
                assert!(mv.toc.ticket_ref.seq_no == seq, "[C25] accepted ticket did not record its sequence number");
                assert!(!mv.toc.ticket_ref.verified, "[C25] an unsigned ticket was marked as verified");
                assert!(unsafe { NCALLS } >= 3 && unsafe { CALLS[0] } == 1 && unsafe { CALLS[1] } == 2 && unsafe { CALLS[2] } == 3, "[C25] accepted ticket was not persisted (TOC, header, sync in that order)");
                assert!(unsafe { PERSISTED_SEQ } == seq, "[C25] the persisted TOC does not carry the new sequence number");
                kani::cover!(true, "ticket accepted");
            }
            Err(MemvidError::TicketSequence { .. }) => {
                assert!(seq <= cur, "[C25] a ticket with a greater sequence number was rejected as replay");
                assert!(mv.toc.ticket_ref.seq_no == cur && mv.toc.ticket_ref.capacity_bytes == cap0 && mv.generation == gen0, "[C25] a rejected ticket changed the memory");
                assert!(unsafe { NCALLS } == 0, "[C25] a rejected ticket wrote to the file");
                kani::cover!(true, "ticket rejected");
            }
            Err(_) => {
                assert!(unsafe { REWRITE_FAILS }, "[C25] ticket application failed for no reason");
            }
        }
        leak(r);
        leak(mv);
    }
}

verif_proof! { [C25]
    #[kani::unwind(4)]
    #[kani::use_stub_set(crate::verif_env::memvid_stubs)]
    #[kani::stub(crate::memvid::lifecycle::Memvid::rewrite_toc_footer, ghost_rewrite)]
    #[kani::stub(crate::persist_header, ghost_persist_header)]
    #[kani::stub(std::fs::File::sync_all, ghost_sync)]
    #[kani::stub(crate::signature::verify_ticket_signature, ghost_verify)]
    #[kani::stub(crate::signature::parse_ed25519_public_key_base64, ghost_parse_key)]
    #[kani::stub(alloc::fmt::format, crate::verif_env::stub_format)]
    fn c25_signed_ticket() {
        let cur: i64 = kani::any();
        kani::assume(cur < i64::MAX);
        let bound: bool = kani::any();
        let my_id: u128 = kani::any();
        let mut mv = setup(cur, 7, if bound { Some(my_id) } else { None });
        let gen0 = mv.generation;
        unsafe { REWRITE_FAILS = false; SIG_OK = kani::any(); }
        let seq: i64 = kani::any();
        let ticket_id: u128 = kani::any();
        let t = SignedTicket { issuer: String::new(), seq_no: seq, expires_in_secs: kani::any(), capacity_bytes: kani::any(), memory_id: uuid::Uuid::from_u128(ticket_id), signature: Vec::new() };
        let r = mv.apply_signed_ticket(t);
        match &r {
            Ok(()) => {
                assert!(unsafe { SIG_OK }, "[C25] a signed ticket was accepted although its signature does not verify");
                assert!(bound && ticket_id == my_id, "[C25] a signed ticket naming another memory (or applied to an unbound memory) was accepted");
                assert!(seq > cur, "[C25] a signed ticket whose sequence number is not greater than the last accepted one was accepted");
                assert!(mv.toc.ticket_ref.seq_no == seq && mv.toc.ticket_ref.verified, "[C25] accepted signed ticket was not recorded as verified with its sequence number");
                assert!(unsafe { NCALLS } >= 3 && unsafe { CALLS[0] } == 1 && unsafe { PERSISTED_SEQ } == seq, "[C25] accepted signed ticket was not persisted");
                kani::cover!(true, "signed ticket accepted");
            }
            Err(_) => {
                assert!(mv.toc.ticket_ref.seq_no == cur && mv.toc.ticket_ref.capacity_bytes == 7 && !mv.toc.ticket_ref.verified && mv.generation == gen0, "[C25] a rejected signed ticket changed the memory");
                assert!(unsafe { NCALLS } == 0, "[C25] a rejected signed ticket wrote to the file");
                assert!(!(unsafe { SIG_OK } && bound && ticket_id == my_id && seq > cur), "[C25] an authentic, fresh ticket for this memory was rejected");
                kani::cover!(unsafe { SIG_OK } && bound && ticket_id == my_id, "replayed ticket rejected");
                kani::cover!(!unsafe { SIG_OK }, "bad signature rejected");
            }
        }
        leak(r);
        leak(mv);
    }
}
