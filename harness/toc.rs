// harnesses for src/toc.rs (child module: sees private items of its parent)
#![allow(unused_imports, static_mut_refs, clippy::all, clippy::pedantic)]
use super::*;
use crate::verif_env::*;

#[path = "/verif/harness/playback/toc.rs"]
mod playback;

// C20: the TOC checksum gate. `Toc::verify_checksum` is the only integrity check on the
// paths that decode a TOC without a valid footer (open()'s fallback, doctor). The three
// encoders (current, legacy V2, legacy V1) and the digest are ghosts: the encoders return
// an empty buffer and every digest computation returns the next of three ARBITRARY 32-byte
// values. Obligation: verify_checksum accepts iff the stored checksum equals one of the
// digests it computed — for every stored checksum, including all-zero and all-0xFF ones.
static mut DIGESTS: [[u8; 32]; 3] = [[0u8; 32]; 3];
static mut N_DIGEST: usize = 0;
fn g_encode_toc(_t: &Toc) -> Result<Vec<u8>> { Ok(Vec::new()) }
fn g_encode_v1(_t: &LegacyTocV1) -> Result<Vec<u8>> { Ok(Vec::new()) }
fn g_encode_v2(_t: &LegacyTocV2) -> Result<Vec<u8>> { Ok(Vec::new()) }
fn g_checksum(_bytes: &[u8]) -> [u8; 32] {
    unsafe {
        let d = DIGESTS[if N_DIGEST < 3 { N_DIGEST } else { 2 }];
        N_DIGEST += 1;
        d
    }
}
// the TOC under test is `empty_toc()` plus a symbolic checksum: its clone is the same thing
// (the derived deep clone of the empty manifest vectors trips a spurious CBMC pointer check)
fn g_toc_clone(t: &Toc) -> Toc {
    let mut c = crate::memvid::lifecycle::empty_toc();
    c.toc_checksum = t.toc_checksum;
    c.replay_manifest = t.replay_manifest.clone();
    c
}
fn g_catalog_clone(_c: &SegmentCatalog) -> SegmentCatalog { SegmentCatalog::default() }
fn same(a: &[u8; 32], b: &[u8; 32]) -> bool {
    let mut i = 0;
    let mut eq = true;
    while i < 32 {
        if a[i] != b[i] { eq = false; }
        i += 1;
    }
    eq
}

fn checksum_gate(legacy: bool) {
        let mut toc = crate::memvid::lifecycle::empty_toc();
        if !legacy { toc.replay_manifest = Some(crate::replay::ReplayManifest::default()); }
        let stored: [u8; 32] = kani::any();
        toc.toc_checksum = stored;
        let d: [[u8; 32]; 3] = kani::any();
        unsafe { DIGESTS = d; N_DIGEST = 0; }
        let r = toc.verify_checksum();
        let n = unsafe { N_DIGEST };
        let matches = (n >= 1 && same(&stored, &d[0])) || (n >= 2 && same(&stored, &d[1])) || (n >= 3 && same(&stored, &d[2]));
        match &r {
            Ok(()) => assert!(matches, "[C20] Toc::verify_checksum accepted a TOC whose stored checksum matches none of the digests computed over its encodings"),
            Err(_) => assert!(!matches, "[C20] Toc::verify_checksum rejected a TOC whose checksum matches one of its encodings"),
        }
        kani::cover!(r.is_ok() && n == if legacy { 3 } else { 1 }, "accepted (through the oldest legacy encoding when legacy)");
        assert!(legacy || n == 1, "[C20] a TOC with a replay manifest was checked against a legacy encoding");
        kani::cover!(r.is_err(), "mismatch rejected");
        leak(r);
        leak(toc);
    }

verif_proof! { [C20]
    #[kani::unwind(34)]
    #[kani::use_stub_set(crate::verif_env::memvid_stubs)]
    #[kani::stub(crate::types::Toc::encode, g_encode_toc)]
    #[kani::stub(crate::toc::LegacyTocV1::encode, g_encode_v1)]
    #[kani::stub(crate::toc::LegacyTocV2::encode, g_encode_v2)]
    #[kani::stub(crate::types::Toc::calculate_checksum, g_checksum)]
    #[kani::stub(<crate::types::Toc as core::clone::Clone>::clone, g_toc_clone)]
    #[kani::stub(<crate::types::SegmentCatalog as core::clone::Clone>::clone, g_catalog_clone)]
    fn c20_toc_checksum_gate_current() { checksum_gate(false); }
}
verif_proof! { [C20]
    #[kani::unwind(34)]
    #[kani::use_stub_set(crate::verif_env::memvid_stubs)]
    #[kani::stub(crate::types::Toc::encode, g_encode_toc)]
    #[kani::stub(crate::toc::LegacyTocV1::encode, g_encode_v1)]
    #[kani::stub(crate::toc::LegacyTocV2::encode, g_encode_v2)]
    #[kani::stub(crate::types::Toc::calculate_checksum, g_checksum)]
    #[kani::stub(<crate::types::Toc as core::clone::Clone>::clone, g_toc_clone)]
    #[kani::stub(<crate::types::SegmentCatalog as core::clone::Clone>::clone, g_catalog_clone)]
    fn c20_toc_checksum_gate_legacy() { checksum_gate(true); }
}
