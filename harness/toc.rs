// harnesses for src/toc.rs (child module: sees private items of its parent)
