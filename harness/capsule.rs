// harnesses for src/encryption/capsule.rs (child module: sees private items of its parent)
