// Harnesses for src/memvid/search/helpers.rs.
#![allow(unused_imports, clippy::all, clippy::pedantic)]
use super::*;
use crate::verif_env::*;

#[path = "/verif/harness/playback/msearch_helpers.rs"]
mod playback;

// C16: a cursor is a position inside the result stream: Ok(v) => v <= total;
// non-numeric cursors are InvalidCursor; no cursor / blank cursor start at 0.
verif_proof! { [C16]
    #[kani::unwind(6)]
    fn c16_parse_cursor() {
        let raw: [u8; 3] = kani::any();
        let mut i = 0;
        while i < 3 {
            kani::assume(raw[i] == b' ' || raw[i] == b'+' || raw[i] == b'-' || raw[i] == b'x' || (raw[i] >= b'0' && raw[i] <= b'9'));
            i += 1;
        }
        let len: usize = kani::any();
        kani::assume(len <= 3);
        let s = unsafe { core::str::from_utf8_unchecked(&raw[..len]) };
        let total: usize = kani::any();
        let present: bool = kani::any();
        let r = parse_cursor(if present { Some(s) } else { None }, total);
        match &r {
            Ok(v) => {
                assert!(*v <= total, "[C16] a cursor beyond the total number of hits was accepted");
                if !present { assert!(*v == 0, "[C16] absent cursor does not start at 0"); }
                // reference value of an all-digit cursor
                let mut all_digits = present && len > 0;
                let mut want = 0usize;
                let mut j = 0;
                while j < len {
                    if raw[j] >= b'0' && raw[j] <= b'9' { want = want * 10 + (raw[j] - b'0') as usize; } else { all_digits = false; }
                    j += 1;
                }
                if all_digits { assert!(*v == want, "[C16] cursor parsed to a different position"); }
                kani::cover!(all_digits && *v > 9, "two-digit cursor accepted");
            }
            Err(e) => {
                assert!(matches!(e, MemvidError::InvalidCursor { .. }), "[C16] bad cursor reported with the wrong error kind");
                assert!(present, "[C16] absent cursor rejected");
            }
        }
        kani::cover!(r.is_err(), "cursor rejected");
        leak(r);
    }
}
// the same obligation over longer cursor strings (thorough tier)
fn parse_cursor_up_to<const L: usize>() {
    let raw: [u8; L] = kani::any();
    let mut i = 0;
    while i < L {
        kani::assume(raw[i] == b' ' || raw[i] == b'+' || raw[i] == b'-' || raw[i] == b'x' || (raw[i] >= b'0' && raw[i] <= b'9'));
        i += 1;
    }
    let len: usize = kani::any();
    kani::assume(len <= L);
    let s = unsafe { core::str::from_utf8_unchecked(&raw[..len]) };
    let total: usize = kani::any();
    let present: bool = kani::any();
    let r = parse_cursor(if present { Some(s) } else { None }, total);
    match &r {
        Ok(v) => {
            assert!(*v <= total, "[C16] a cursor beyond the total number of hits was accepted");
            if !present { assert!(*v == 0, "[C16] absent cursor does not start at 0"); }
            // reference value of an all-digit cursor
            let mut all_digits = present && len > 0;
            let mut want = 0usize;
            let mut j = 0;
            while j < len {
                if raw[j] >= b'0' && raw[j] <= b'9' { want = want * 10 + (raw[j] - b'0') as usize; } else { all_digits = false; }
                j += 1;
            }
            if all_digits { assert!(*v == want, "[C16] cursor parsed to a different position"); }
            kani::cover!(all_digits && *v > 9, "two-digit cursor accepted");
            kani::cover!(all_digits && len == L && raw[0] != b'0', "full-length cursor accepted");
        }
        Err(e) => {
            assert!(matches!(e, MemvidError::InvalidCursor { .. }), "[C16] bad cursor reported with the wrong error kind");
            assert!(present, "[C16] absent cursor rejected");
        }
    }
    kani::cover!(r.is_err(), "cursor rejected");
    leak(r);
}
verif_proof! { [C16]
    #[kani::unwind(8)]
    fn c16_parse_cursor_5() { parse_cursor_up_to::<5>(); }
}
