// harnesses for src/memvid/search/mod.rs (child module: sees private items of its parent)
