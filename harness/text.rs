// harnesses for src/text.rs (child module: sees private items of its parent)
