// harnesses for src/memvid/memory.rs (child module: sees private items of its parent)
