// harnesses for src/memvid/search/builders.rs (child module: sees private items of its parent)
