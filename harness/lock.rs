// harnesses for src/lock.rs (child module: sees private items of its parent)
