// harnesses for src/lock.rs (child module: sees private items of its parent)
#![allow(unused_imports, static_mut_refs, clippy::all, clippy::pedantic)]
use super::*;
use crate::verif_env::*;
use std::os::fd::FromRawFd;

#[path = "/verif/harness/playback/lock.rs"]
mod playback;

// C19 (single-file guarantee): the handle-opening helpers used by Memvid::open,
// open_read_only and the lock probes must never ask the OS to create or truncate a file:
// only Memvid::create may bring a file into existence. OpenOptions is observed through
// ghosts of its builder methods (its fields are private); `open` itself is a ghost that
// either fails (missing path) or hands out a descriptor.
static mut ASKED_CREATE: bool = false;
static mut ASKED_TRUNCATE: bool = false;
static mut ASKED_APPEND: bool = false;
static mut OPEN_CALLS: u8 = 0;
static mut OPEN_FAILS: bool = false;
fn g_create(o: &mut OpenOptions, v: bool) -> &mut OpenOptions { if v { unsafe { ASKED_CREATE = true; } } o }
fn g_create_new(o: &mut OpenOptions, v: bool) -> &mut OpenOptions { if v { unsafe { ASKED_CREATE = true; } } o }
fn g_truncate(o: &mut OpenOptions, v: bool) -> &mut OpenOptions { if v { unsafe { ASKED_TRUNCATE = true; } } o }
fn g_append(o: &mut OpenOptions, v: bool) -> &mut OpenOptions { if v { unsafe { ASKED_APPEND = true; } } o }
fn g_open<P: AsRef<Path>>(_o: &OpenOptions, _p: P) -> std::io::Result<File> {
    unsafe {
        OPEN_CALLS += 1;
        if OPEN_FAILS { return Err(std::io::Error::from_raw_os_error(2)); }
        Ok(File::from_raw_fd(7))
    }
}
fn g_acquire(file: &File, mode: LockMode) -> Result<FileLock> {
    Ok(FileLock { file: unsafe { File::from_raw_fd(8) }, mode })
}
fn g_try_lock(_f: &File) -> std::io::Result<()> { Ok(()) }
fn g_fd_drop(_fd: &mut std::os::fd::OwnedFd) {}

verif_proof! { [C19]
    #[kani::unwind(3)]
    #[kani::stub(std::fs::OpenOptions::create, g_create)]
    #[kani::stub(std::fs::OpenOptions::create_new, g_create_new)]
    #[kani::stub(std::fs::OpenOptions::truncate, g_truncate)]
    #[kani::stub(std::fs::OpenOptions::append, g_append)]
    #[kani::stub(std::fs::OpenOptions::open, g_open)]
    #[kani::stub(FileLock::acquire_with_mode, g_acquire)]
    #[kani::stub(<std::os::fd::OwnedFd as core::ops::Drop>::drop, g_fd_drop)]
    fn c19_open_helpers_never_create() {
        let which: u8 = kani::any();
        kani::assume(which < 2);
        unsafe { ASKED_CREATE = false; ASKED_TRUNCATE = false; ASKED_APPEND = false; OPEN_CALLS = 0; OPEN_FAILS = kani::any(); }
        let p = Path::new("m.mv2");
        let r = if which == 0 { FileLock::open_and_lock(p) } else { FileLock::open_read_only(p) };
        assert!(unsafe { OPEN_CALLS } == 1, "[C19] handle helper opened the path more than once or not at all");
        assert!(!unsafe { ASKED_CREATE }, "[C19] opening an existing memory asks the OS to create the file: a failed or mistyped open leaves a stray file behind");
        assert!(!unsafe { ASKED_TRUNCATE } && !unsafe { ASKED_APPEND }, "[C19] opening an existing memory asks for truncation/append");
        assert!(r.is_ok() != unsafe { OPEN_FAILS }, "[C19] handle helper did not report the failed open");
        kani::cover!(r.is_ok(), "opened");
        kani::cover!(r.is_err(), "missing path reported");
        leak(r);
    }
}
