// harnesses for src/memvid/enrichment.rs (child module: sees private items of its parent)
