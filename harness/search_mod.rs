// harnesses for src/search/mod.rs (child module: sees private items of its parent)
