// Harnesses for src/io/wal.rs (child module of memvid_core::io::wal: sees the
// private fields of EmbeddedWal and the private scan/sentinel functions).
#![allow(unused_imports, unused_variables, static_mut_refs, clippy::all, clippy::pedantic)]
use super::*;
use crate::verif_env::*;

#[path = "/verif/harness/playback/wal.rs"]
mod playback;

const HDR: u64 = ENTRY_HEADER_SIZE as u64;
/// Largest region covered by the inductive-step harnesses: 64 MiB, the
/// largest WAL size tier (WAL_SIZE_XLARGE).
const RS_MAX: u64 = 1 << 26;

// ===========================================================================
// Part 1 — inductive step over the data-less disk.
//
// Representation invariant Inv of an EmbeddedWal (relative offsets):
//   [0, wh-pb)   "old" records, all with sequence <= checkpoint_sequence
//   [wh-pb, wh)  the pending records (sequence > checkpoint_sequence)
//   wh           a zero header (sentinel), or fewer than 48 bytes remain
// The scan starts at 0, so this chain must stay intact while anything is
// pending: any write into [0, wh) hides or corrupts acknowledged records.
// Each harness takes an ARBITRARY state satisfying Inv (so it stands for every
// history that reaches it), performs ONE real operation, and asserts
//   (a) which bytes were written (from the ghost event log),
//   (b) Inv for the post-state.
// In playback (native) mode the same pre-state is built through the public
// API on a real file and the observable result of a real scan is asserted.
// ===========================================================================

#[derive(Clone, Copy)]
struct Pre {
    rs: u64,
    off: u64,
    wh: u64,
    pb: u64,
    seq: u64,
    cseq: u64,
    asc: u64,
    skip_sync: bool,
}

/// Structural invariant (see above).  Regions smaller than one record header
/// are excluded: open() on such a (crafted) header writes its 48-byte sentinel
/// past the region; no tier creates regions below 64 KiB.
fn inv(rs: u64, wh: u64, pb: u64, seq: u64, cseq: u64) -> bool {
    let a = wh.wrapping_sub(pb);
    rs >= HDR
        && rs <= RS_MAX
        && wh <= rs
        && pb <= wh
        && (a == 0 || a > HDR)
        && (pb == 0 || pb > HDR)
        && ((pb == 0 && seq == cseq) || (pb > 0 && seq > cseq))
}

fn any_pre() -> Pre {
    let p = Pre {
        rs: kani::any(),
        off: kani::any(),
        wh: kani::any(),
        pb: kani::any(),
        seq: kani::any(),
        cseq: kani::any(),
        asc: kani::any(),
        skip_sync: kani::any(),
    };
    kani::assume(inv(p.rs, p.wh, p.pb, p.seq, p.cseq));
    // sequence numbers far from u64::MAX (2^62 appends are out of reach)
    kani::assume(p.seq < (1 << 62) && p.cseq < (1 << 62));
    kani::assume(p.off <= 8192);
    kani::assume(p.asc < (1 << 62));
    p
}

fn reset_log() {
    unsafe {
        EV_N = 0;
        WRITES = 0;
        SYNCS = 0;
    }
}

/// Build the pre-state: a struct literal over the data-less disk when
/// symbolic; through open/append/checkpoint/append on a real file in playback.
/// Returns the handle, the file, the header and the number of pending records.
fn build(p: &Pre) -> (EmbeddedWal, File, Header, usize) {
    let mut header = Header {
        magic: *b"MV2\0",
        version: 0x0201,
        footer_offset: 0,
        wal_offset: p.off,
        wal_size: p.rs,
        wal_checkpoint_pos: 0,
        wal_sequence: p.cseq,
        toc_checksum: [0u8; 32],
    };
    if symbolic() {
        header.wal_checkpoint_pos = p.wh - p.pb;
        let wal = EmbeddedWal {
            file: fake_file(),
            region_offset: p.off,
            region_size: p.rs,
            write_head: p.wh,
            checkpoint_head: p.wh - p.pb,
            pending_bytes: p.pb,
            sequence: p.seq,
            checkpoint_sequence: p.cseq,
            appends_since_checkpoint: p.asc,
            read_only: false,
            skip_sync: p.skip_sync,
        };
        reset_log();
        (wal, fake_file(), header, if p.pb > 0 { 1 } else { 0 })
    } else {
        // native: reach (wh, pb) with one old record of a-48 bytes, a
        // checkpoint, and one pending record of pb-48 bytes
        let a = p.wh - p.pb;
        let file = open_zero_disk(p.off + p.rs);
        header.wal_sequence = if a > 0 { p.cseq.saturating_sub(1) } else { p.cseq };
        let mut wal = EmbeddedWal::open(&file, &header).expect("native pre-state: open");
        if a > 0 {
            let old = vec![0xA5u8; (a - HDR) as usize];
            wal.append_entry(&old).expect("native pre-state: old record");
            wal.record_checkpoint(&mut header).expect("native pre-state: checkpoint");
        }
        let mut pending = 0;
        if p.pb > 0 {
            let pend = vec![0x5Au8; (p.pb - HDR) as usize];
            wal.append_entry(&pend).expect("native pre-state: pending record");
            pending = 1;
        }
        wal.set_skip_sync(p.skip_sync);
        (wal, file, header, pending)
    }
}

/// (a) write discipline + (b) Inv', from the ghost event log.
/// `rec` = Some(entry_size) when the operation appended a record.
fn check_step(p: &Pre, wal: &EmbeddedWal, rec: Option<u64>) {
    if !symbolic() {
        return;
    }
    let rs = p.rs;
    let wh2 = wal.write_head;
    let pb2 = wal.pending_bytes;
    assert!(wal.region_size == rs && wal.region_offset == p.off, "[C05] operation changed the region geometry");
    assert!(inv(rs, wh2, pb2, wal.sequence, wal.checkpoint_sequence), "[C05] log invariant broken: write head / pending bytes / sequence inconsistent after the operation");
    let n = unsafe { EV_N };
    assert!(n < EV_MAX, "[env] event log overflow");
    let mut first_write = true;
    let mut sentinel = false;
    let mut i = 0;
    while i < n {
        let kind = unsafe { EV_KIND[i] };
        if kind == EV_WRITE {
            let abs = unsafe { EV_POS[i] };
            let len = unsafe { EV_LEN[i] };
            let zero = unsafe { EV_ZERO[i] };
            assert!(abs >= p.off && abs - p.off <= rs && len <= rs - (abs - p.off), "[C05] write outside the log region");
            let pos = abs - p.off;
            if first_write && rec.is_some() {
                let entry = rec.unwrap_or(0);
                // the record itself: at the old write head, or at 0 when nothing was pending
                assert!(len == entry, "[C05] record write has the wrong size");
                assert!(pos == p.wh || (pos == 0 && p.pb == 0), "[C05] record written over pending or chained records (wrapped while records were pending)");
                assert!(pos + entry == wh2, "[C05] write head does not follow the appended record");
            } else if len > 0 {
                // sentinel / tail zeroing: only beyond the new write head, never into the chain
                assert!(zero, "[C05] non-zero bytes written outside a record");
                assert!(pos >= wh2, "[C05] sentinel or padding written into the record chain [0, write_head): pending records are hidden or overwritten");
                if pos == wh2 && len >= HDR {
                    sentinel = true;
                }
            }
            first_write = false;
        }
        i += 1;
    }
    // "never resurrects": a zero header must terminate the chain unless < 48 bytes remain
    // (when the head did not move, the sentinel the invariant assumes is still there)
    if wh2 != p.wh {
        assert!(sentinel || rs - wh2 < HDR, "[C05] no zero sentinel after the chain: stale bytes could be scanned as records");
    }
}

/// Native/observable oracle: a real scan returns exactly `expect_n` pending
/// records whose last one (if appended now) carries `last`.
fn check_scan_native(wal: &mut EmbeddedWal, file: &File, header: &Header, expect_n: usize, last: Option<(u64, &[u8])>) {
    if symbolic() {
        return;
    }
    let recs = wal.pending_records();
    match &recs {
        Ok(v) => {
            assert!(v.len() >= expect_n, "[C05] scan lost acknowledged pending records");
            assert!(v.len() <= expect_n, "[C05] scan reported records that are not pending");
            if let Some((seq, payload)) = last {
                let r = &v[v.len() - 1];
                assert!(r.sequence == seq && r.payload == payload, "[C05] scan returned an altered record");
            }
        }
        Err(_) => assert!(false, "[C05] scan failed after acknowledged operations"),
    }
    let reopened = EmbeddedWal::open(file, header);
    match reopened {
        Ok(mut w2) => {
            let r2 = w2.pending_records();
            match &r2 {
                Ok(v) => assert!(v.len() == expect_n, "[C05] reopen-from-header lost or resurrected records"),
                Err(_) => assert!(false, "[C05] scan after reopen failed"),
            }
        }
        Err(_) => assert!(false, "[C05] reopen-from-header failed"),
    }
}

fn step_append<const L: usize>() {
    let p = any_pre();
    let (mut wal, file, header, pending) = build(&p);
    let payload: [u8; L] = kani::any();
    let entry = HDR + L as u64;
    let seq0 = wal.sequence;
    let r = wal.append_entry(&payload);
    match &r {
        Ok(seq) => {
            assert!(*seq == seq0 + 1, "[C05] append did not return the next sequence number");
            if symbolic() {
                assert!(wal.pending_bytes == p.pb + entry, "[C05] pending byte count wrong after append");
                assert!(wal.sequence == seq0 + 1 && wal.checkpoint_sequence == p.cseq, "[C05] sequence bookkeeping wrong after append");
                check_step(&p, &wal, Some(entry));
                // C03: the acknowledgement implies the record was synced (unless batch mode)
                let n = unsafe { EV_N };
                let mut synced_after_record = false;
                let mut seen_record = false;
                let mut i = 0;
                while i < n {
                    let k = unsafe { EV_KIND[i] };
                    if k == EV_WRITE && !seen_record {
                        seen_record = true;
                    } else if k == EV_SYNC && seen_record {
                        synced_after_record = true;
                    }
                    i += 1;
                }
                assert!(p.skip_sync || synced_after_record, "[C03] append acknowledged before the record was fsynced");
            }
            kani::cover!(p.pb > 0, "append with records pending");
            kani::cover!(p.pb == 0 && p.wh > 0 && wal.write_head == entry, "append wrapped to offset 0");
            kani::cover!(p.rs - wal.write_head < HDR, "append left less than a header of tail");
            check_scan_native(&mut wal, &file, &header, pending + 1, Some((*seq, &payload)));
        }
        Err(e) => {
            assert!(matches!(e, MemvidError::CheckpointFailed { .. }), "[C05] append failed with an unexpected error kind");
            if symbolic() {
                assert!(unsafe { WRITES } == 0, "[C05] rejected append wrote to the log");
                assert!(wal.write_head == p.wh && wal.pending_bytes == p.pb && wal.sequence == p.seq, "[C05] rejected append changed the log state");
            }
            kani::cover!(p.pb > 0 && entry <= p.rs, "append rejected as full");
            check_scan_native(&mut wal, &file, &header, pending, None);
        }
    }
    leak(r);
    leak(wal);
    leak(file);
}

verif_proof_ghost! { [C05 C01 C03]
    #[kani::unwind(6)]
    fn c05_step_append_1() { step_append::<1>(); }
}
verif_proof_ghost! { [C05 C01 C03]
    #[kani::unwind(6)]
    fn c05_step_append_20() { step_append::<20>(); }
}
verif_proof_ghost! { [C05 C01 C03]
    #[kani::unwind(6)]
    fn c05_step_append_300() { step_append::<300>(); }
}

verif_proof_ghost! { [C05 C01]
    #[kani::unwind(6)]
    fn c05_step_checkpoint() {
        let p = any_pre();
        let (mut wal, file, mut header, _pending) = build(&p);
        let seq0 = wal.sequence;
        let r = wal.record_checkpoint(&mut header);
        assert!(r.is_ok(), "[C05] checkpoint failed");
        leak(r);
        if symbolic() {
            assert!(wal.pending_bytes == 0 && wal.checkpoint_sequence == seq0 && wal.sequence == seq0, "[C05] checkpoint bookkeeping wrong");
            assert!(header.wal_sequence == seq0, "[C05] checkpoint did not record the sequence in the header: old records would be reported as pending after reopen");
            assert!(header.wal_checkpoint_pos <= p.rs, "[C05] checkpoint position outside the region");
            check_step(&p, &wal, None);
        }
        kani::cover!(p.pb > 0, "checkpoint with records pending");
        kani::cover!(wal.write_head == 0 && p.wh > 0, "checkpoint wrapped the sentinel");
        check_scan_native(&mut wal, &file, &header, 0, None);
        leak(wal);
        leak(file);
    }
}

// --- scan step: records_after / open_internal with the scan itself replaced
// by a ghost that returns the chain the invariant describes (the real scan is
// exercised in part 2). ------------------------------------------------------
static mut SCAN_A: u64 = 0;
static mut SCAN_B: u64 = 0;
static mut SCAN_SEQ_OLD: u64 = 0;
static mut SCAN_SEQ_NEW: u64 = 0;
// The shape of the chain (old records present? pending records present?) is
// concrete per harness instance: a Vec whose LENGTH is symbolic made the
// SAT query take > 10 minutes; sizes and sequence numbers stay symbolic.
fn ghost_scan_impl(old: bool, new: bool) -> Result<(Vec<ScannedRecord>, u64)> {
    let mut v = Vec::new();
    unsafe {
        if old {
            v.push(ScannedRecord { sequence: SCAN_SEQ_OLD, payload: Vec::new(), total_size: SCAN_A });
        }
        if new {
            v.push(ScannedRecord { sequence: SCAN_SEQ_NEW, payload: Vec::new(), total_size: SCAN_B });
        }
        Ok((v, SCAN_A + SCAN_B))
    }
}
fn ghost_scan_00(_f: &mut File, _o: u64, _s: u64) -> Result<(Vec<ScannedRecord>, u64)> { ghost_scan_impl(false, false) }
fn ghost_scan_10(_f: &mut File, _o: u64, _s: u64) -> Result<(Vec<ScannedRecord>, u64)> { ghost_scan_impl(true, false) }
fn ghost_scan_01(_f: &mut File, _o: u64, _s: u64) -> Result<(Vec<ScannedRecord>, u64)> { ghost_scan_impl(false, true) }
fn ghost_scan_11(_f: &mut File, _o: u64, _s: u64) -> Result<(Vec<ScannedRecord>, u64)> { ghost_scan_impl(true, true) }

fn shaped_pre(old: bool, new: bool) -> Pre {
    let p = any_pre();
    kani::assume((p.wh - p.pb > 0) == old && (p.pb > 0) == new);
    kani::assume(p.cseq >= 1 || !old);
    unsafe {
        SCAN_A = p.wh - p.pb;
        SCAN_B = p.pb;
        SCAN_SEQ_OLD = p.cseq;
        SCAN_SEQ_NEW = p.seq;
    }
    p
}

fn step_scan(old: bool, new: bool) {
    let p = shaped_pre(old, new);
    let (mut wal, file, header, pending) = build(&p);
    let recs = wal.pending_records();
    match &recs {
        Ok(v) => {
            assert!(v.len() == pending, "[C05] pending_records does not return exactly the records after the checkpoint");
            if symbolic() {
                if p.pb > 0 {
                    assert!(v[0].sequence == p.seq, "[C05] pending_records returned the wrong record");
                }
                assert!(wal.pending_bytes == p.pb && wal.sequence == p.seq, "[C05] scan changed the bookkeeping of pending records");
                check_step(&p, &wal, None);
            }
        }
        Err(_) => assert!(false, "[C05] scan failed on a well-formed log"),
    }
    kani::cover!(!new || p.wh == p.rs, "scan of an exactly full region");
    kani::cover!(!new || (p.rs - p.wh < HDR && p.wh < p.rs), "scan with a short tail");
    check_scan_native(&mut wal, &file, &header, pending, None);
    leak(recs);
    leak(wal);
    leak(file);
}

fn step_open(old: bool, new: bool) {
    let p = shaped_pre(old, new);
    let header = Header {
        magic: *b"MV2\0",
        version: 0x0201,
        footer_offset: 0,
        wal_offset: p.off,
        wal_size: p.rs,
        wal_checkpoint_pos: kani::any(),
        wal_sequence: p.cseq,
        toc_checksum: [0u8; 32],
    };
    let file = fake_file();
    reset_log();
    let r = EmbeddedWal::open(&file, &header);
    match &r {
        Ok(wal) => {
            assert!(wal.pending_bytes == p.pb, "[C05] open computed the wrong pending byte count");
            assert!(wal.sequence == p.seq && wal.checkpoint_sequence == p.cseq, "[C05] open computed wrong sequence numbers");
            // (with nothing pending and less than a header of room, open may restart the log at offset 0)
            assert!(wal.write_head == p.wh || (wal.write_head == 0 && p.pb == 0), "[C05] open did not place the write head after the last record");
            check_step(&p, wal, None);
            kani::cover!(!new || p.wh == p.rs, "open of an exactly full region");
        }
        Err(_) => assert!(false, "[C05] open failed on a well-formed log"),
    }
    leak(r);
    leak(file);
}

macro_rules! scan_harness {
    ($name:ident, $stub:ident, $f:ident, $old:expr, $new:expr) => {
        verif_proof_ghost! { [C05 C01 C04]
            #[kani::unwind(6)]
            #[kani::stub(crate::io::wal::EmbeddedWal::scan_records, crate::io::wal::verif_wal::$stub)]
            fn $name() { $f($old, $new); }
        }
    };
}
scan_harness!(c05_step_scan_empty, ghost_scan_00, step_scan, false, false);
scan_harness!(c05_step_scan_old_only, ghost_scan_10, step_scan, true, false);
scan_harness!(c05_step_scan_pending_only, ghost_scan_01, step_scan, false, true);
scan_harness!(c05_step_scan_old_and_pending, ghost_scan_11, step_scan, true, true);
scan_harness!(c05_step_open_empty, ghost_scan_00, step_open, false, false);
scan_harness!(c05_step_open_old_only, ghost_scan_10, step_open, true, false);
scan_harness!(c05_step_open_pending_only, ghost_scan_01, step_open, false, true);
scan_harness!(c05_step_open_old_and_pending, ghost_scan_11, step_open, true, true);

// ===========================================================================
// Part 2 — the on-disk record format, on the in-memory disk with data.
//   (2a) write_record / append_entry produce exactly the documented record
//        image at the write head (bytes checked by the solver);
//   (2b) scan_records on well-formed chain images (built cell by cell, so that
//        header fields read back stay concrete for CBMC) returns exactly the
//        chain: order, sequences, payloads; stops at the sentinel; ignores
//        stale bytes after it; copes with short tails and exact fits;
//        open()/pending_records() report exactly the records after the
//        checkpoint sequence.
// Together with part 1 (which bytes an operation may write, for every state)
// this gives: what was appended since the last checkpoint is what a scan
// returns.
// ===========================================================================

/// Write a well-formed record image at `at`: [seq u64][len u32][4 reserved][hash 32][payload].
fn put_record(file: &mut File, at: u64, seq: u64, payload: &[u8]) -> u64 {
    disk_put(file, at, &seq.to_le_bytes());
    disk_put(file, at + 8, &(payload.len() as u32).to_le_bytes());
    disk_put(file, at + 12, &[0u8; 4]);
    disk_put(file, at + 16, &oracle_hash(payload));
    disk_put(file, at + HDR, payload);
    at + HDR + payload.len() as u64
}

fn hdr_for(rs: u64, cseq: u64) -> Header {
    Header {
        magic: *b"MV2\0",
        version: 0x0201,
        footer_offset: 0,
        wal_offset: 0,
        wal_size: rs,
        wal_checkpoint_pos: 0,
        wal_sequence: cseq,
        toc_checksum: [0u8; 32],
    }
}

fn same_bytes(a: &[u8], b: &[u8]) -> bool {
    if a.len() != b.len() {
        return false;
    }
    let mut ok = true;
    let mut i = 0;
    while i < a.len() {
        if a[i] != b[i] {
            ok = false;
        }
        i += 1;
    }
    ok
}

// (2a) record layout written by append_entry
verif_proof_io! { [C05 C01 C30]
    #[kani::unwind(50)]
    fn c05_record_layout() {
        let mut file = open_zero_disk(200);
        let cseq: u64 = kani::any();
        kani::assume(cseq < (1 << 62));
        let header = hdr_for(200, cseq);
        let opened = EmbeddedWal::open(&file, &header);
        let mut wal = match opened {
            Ok(w) => w,
            Err(e) => { leak(e); assert!(false, "[C05] open failed on a zeroed region"); return; }
        };
        let payload: [u8; 12] = kani::any();
        let r = wal.append_entry(&payload);
        match &r {
            Ok(seq) => {
                assert!(*seq == cseq + 1, "[C05] append did not return the next sequence number");
                let want_seq = seq.to_le_bytes();
                let want_hash = oracle_hash(&payload);
                let mut i = 0;
                while i < 8 {
                    assert!(disk_get(&mut file, i as u64) == want_seq[i], "[C05] record header does not carry the sequence number");
                    i += 1;
                }
                assert!(disk_get(&mut file, 8) == 12 && disk_get(&mut file, 9) == 0 && disk_get(&mut file, 10) == 0 && disk_get(&mut file, 11) == 0, "[C05] record header does not carry the payload length");
                let mut j = 0;
                while j < 32 {
                    assert!(disk_get(&mut file, 16 + j as u64) == want_hash[j], "[C05] record header does not carry the payload checksum");
                    j += 1;
                }
                let mut k = 0;
                while k < 12 {
                    assert!(disk_get(&mut file, HDR + k as u64) == payload[k], "[C05] record payload bytes differ from what was appended");
                    k += 1;
                }
                // sentinel: a zero header right after the record
                let mut z = 0;
                while z < 48 {
                    assert!(disk_get(&mut file, 60 + z as u64) == 0, "[C05] no zero sentinel after the record");
                    z += 1;
                }
                kani::cover!(true, "record written");
            }
            Err(_) => assert!(false, "[C05] append into an empty 200-byte region was rejected"),
        }
        leak(r);
        leak(wal);
        leak(file);
    }
}

/// (2b) chain image: N records with consecutive sequence numbers from a symbolic
/// start, payload sizes alternating 12 / 1; `tail` decides what follows the chain.
/// tail: 0 = zeros, 1 = zero sentinel then arbitrary stale bytes, 2 = arbitrary
/// bytes in a tail shorter than a header (the region is sized to leave < 48).
/// The real scan_records is called directly (open()/records_after() add a Vec
/// iteration and sentinel writes whose guards turn the whole disk symbolic for
/// CBMC; their logic is covered in part 1 with the scan ghosted).
fn scan_image<const RS: u64>(n: usize, tail: u8) {
    let mut file = open_zero_disk(RS);
    let first: u64 = kani::any();
    kani::assume(first >= 1 && first < (1 << 40));
    let p12: [u8; 12] = kani::any();
    let p1: [u8; 1] = kani::any();
    let mut at = 0u64;
    let mut k = 0usize;
    while k < n {
        let seq = first + k as u64;
        at = if k % 2 == 0 { put_record(&mut file, at, seq, &p12) } else { put_record(&mut file, at, seq, &p1) };
        k += 1;
    }
    assert!(at <= RS, "[env] chain image larger than the region");
    if tail == 1 {
        // zero header already there (zero disk); stale garbage after it
        let g: [u8; 8] = kani::any();
        if at + HDR + 8 <= RS {
            disk_put(&mut file, at + HDR, &g);
        }
    } else if tail == 2 {
        assert!(RS - at < HDR, "[env] tail case needs a short tail");
        let g: [u8; 8] = kani::any();
        if at + 8 <= RS {
            disk_put(&mut file, at, &g);
        }
    }
    let scanned = EmbeddedWal::scan_records(&mut file, 0, RS);
    match &scanned {
        Ok((v, next_head)) => {
            assert!(v.len() >= n, "[C05] scan lost records of a well-formed chain");
            assert!(v.len() <= n, "[C05] scan reported stale bytes beyond the sentinel as records");
            assert!(*next_head == at, "[C05] scan does not place the next write head after the last record");
            let mut j = 0;
            while j < n {
                assert!(v[j].sequence == first + j as u64, "[C05] scan returned records out of order or with wrong sequence");
                let ok = if j % 2 == 0 { same_bytes(&v[j].payload, &p12) } else { same_bytes(&v[j].payload, &p1) };
                assert!(ok, "[C05] scan returned a record with altered payload");
                assert!(v[j].total_size == HDR + v[j].payload.len() as u64, "[C05] scan computed a wrong record size");
                j += 1;
            }
            kani::cover!(v.len() == n, "scan completed");
        }
        Err(_) => assert!(false, "[C05] scan failed on a well-formed log image"),
    }
    leak(scanned);
    leak(file);
}

verif_proof_io! { [C05 C01]
    #[kani::unwind(14)]
    fn c05_scan_three_records() { scan_image::<250>(3, 0); }
}
verif_proof_io! { [C05 C01]
    #[kani::unwind(14)]
    fn c05_scan_ignores_stale_bytes() { scan_image::<200>(2, 1); }
}
verif_proof_io! { [C05 C01]
    #[kani::unwind(14)]
    fn c05_scan_short_tail() { scan_image::<128>(2, 2); }
}
verif_proof_io! { [C05 C01]
    #[kani::unwind(14)]
    fn c05_scan_exact_fit() { scan_image::<109>(2, 0); }
}
verif_proof_io! { [C05 C01]
    #[kani::unwind(14)]
    fn c05_scan_empty() { scan_image::<100>(0, 1); }
}

// ===========================================================================
// C22: the scan on ARBITRARY region bytes: terminates, never panics, and
// whatever it returns lies inside the region.
// ===========================================================================
verif_proof_io! { [C22 C05 C20]
    #[kani::unwind(5)]
    fn c22_wal_scan_arbitrary_bytes() {
        let mut file = open_zero_disk(100);
        let a: [u8; 50] = kani::any();
        let b: [u8; 50] = kani::any();
        disk_put(&mut file, 0, &a);
        disk_put(&mut file, 50, &b);
        let r = EmbeddedWal::scan_records(&mut file, 0, 100);
        match &r {
            Ok((v, next)) => {
                assert!(*next <= 100, "[C22] scan ran past the end of the log region");
                assert!(v.len() <= 2, "[C22] scan returned more records than fit in the region");
                let mut total = 0u64;
                let mut j = 0;
                while j < v.len() {
                    assert!(v[j].total_size == 48 + v[j].payload.len() as u64 && v[j].payload.len() >= 1, "[C22] scan returned a malformed record");
                    total += v[j].total_size;
                    j += 1;
                }
                assert!(total == *next, "[C22] scan's next head is not the end of the records it returned");
                kani::cover!(v.len() == 1, "one record accepted from arbitrary bytes");
            }
            Err(e) => {
                assert!(matches!(e, MemvidError::WalCorruption { .. }) || matches!(e, MemvidError::Io { .. }), "[C22] scan failed with an unexpected error kind");
                kani::cover!(true, "corruption reported");
            }
        }
        leak(r);
        leak(file);
    }
}

// ===========================================================================
// C18: a read-only log handle never writes, and refuses every mutator.
// ===========================================================================
fn read_only_ops(old: bool, new: bool) { read_only_ops_upto(old, new, 2); }
// `upto`: 0 = open only, 1 = open + scan, 2 = also the refused mutations. The short
// variants exist so that a write on the read-only path is reported by a query that
// stays small even when that write is a symbolic-length buffer.
fn read_only_ops_upto(old: bool, new: bool, upto: u8) {
    let p = shaped_pre(old, new);
    let header = Header {
        magic: *b"MV2\0",
        version: 0x0201,
        footer_offset: 0,
        wal_offset: p.off,
        wal_size: p.rs,
        wal_checkpoint_pos: kani::any(),
        wal_sequence: p.cseq,
        toc_checksum: [0u8; 32],
    };
    let file = fake_file();
    reset_log();
    let r = EmbeddedWal::open_read_only(&file, &header);
    match r {
        Ok(mut wal) => {
            assert!(unsafe { WRITES } == 0, "[C18] opening the log read-only wrote to the file");
            if upto >= 1 {
                let recs = wal.pending_records();
                assert!(unsafe { WRITES } == 0, "[C18] scanning a read-only log wrote to the file");
                match &recs {
                    Ok(v) => assert!(v.len() == if new { 1 } else { 0 }, "[C18] read-only scan does not report exactly the pending records"),
                    Err(_) => assert!(false, "[C18] read-only scan failed on a well-formed log"),
                }
                leak(recs);
            }
            if upto >= 2 {
                let payload: [u8; 3] = kani::any();
                let a = wal.append_entry(&payload);
                assert!(matches!(a, Err(MemvidError::Lock(_))), "[C18] append on a read-only log was not refused");
                leak(a);
                let mut h2 = header.clone();
                let c = wal.record_checkpoint(&mut h2);
                assert!(matches!(c, Err(MemvidError::Lock(_))), "[C18] checkpoint on a read-only log was not refused");
                assert!(h2.wal_sequence == header.wal_sequence && h2.wal_checkpoint_pos == header.wal_checkpoint_pos, "[C18] refused checkpoint changed the header");
                leak(c);
                assert!(!wal.should_checkpoint(), "[C18] a read-only log asks for a checkpoint");
                assert!(unsafe { WRITES } == 0, "[C18] a refused mutation wrote to the file");
            }
            kani::cover!(true, "read-only handle exercised");
            leak(wal);
        }
        Err(e) => { leak(e); assert!(false, "[C18] read-only open failed on a well-formed log"); }
    }
    leak(file);
}
verif_proof_ghost! { [C18]
    #[kani::unwind(6)]
    #[kani::stub(crate::io::wal::EmbeddedWal::scan_records, crate::io::wal::verif_wal::ghost_scan_11)]
    fn c18_wal_read_only_old_and_pending() { read_only_ops(true, true); }
}
verif_proof_ghost! { [C18]
    #[kani::unwind(6)]
    #[kani::stub(crate::io::wal::EmbeddedWal::scan_records, crate::io::wal::verif_wal::ghost_scan_00)]
    fn c18_wal_read_only_empty() { read_only_ops(false, false); }
}
verif_proof_ghost! { [C18]
    #[kani::unwind(6)]
    #[kani::stub(crate::io::wal::EmbeddedWal::scan_records, crate::io::wal::verif_wal::ghost_scan_11)]
    fn c18_wal_read_only_open_only() { read_only_ops_upto(true, true, 0); }
}
verif_proof_ghost! { [C18]
    #[kani::unwind(6)]
    #[kani::stub(crate::io::wal::EmbeddedWal::scan_records, crate::io::wal::verif_wal::ghost_scan_11)]
    fn c18_wal_read_only_scan_only() { read_only_ops_upto(true, true, 1); }
}
verif_proof_ghost! { [C18]
    #[kani::unwind(6)]
    #[kani::stub(crate::io::wal::EmbeddedWal::scan_records, crate::io::wal::verif_wal::ghost_scan_01)]
    fn c18_wal_read_only_open_pending_only() { read_only_ops_upto(false, true, 0); }
}

