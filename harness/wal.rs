// Harnesses for src/io/wal.rs (child module of memvid_core::io::wal: sees the
// private fields of EmbeddedWal and the private scan/sentinel functions).
#![allow(unused_imports, unused_variables, static_mut_refs, clippy::all, clippy::pedantic)]
use super::*;
use crate::verif_env::*;

#[path = "/verif/harness/playback/wal.rs"]
mod playback;

const HDR: u64 = ENTRY_HEADER_SIZE as u64;
/// Largest region covered by the inductive-step harnesses: 64 MiB, the
/// largest WAL size tier (WAL_SIZE_XLARGE).
const RS_MAX: u64 = 1 << 26;

// ===========================================================================
// Part 1 — inductive step over the data-less disk.
//
// Representation invariant Inv of an EmbeddedWal (relative offsets):
//   [0, wh-pb)   "old" records, all with sequence <= checkpoint_sequence
//   [wh-pb, wh)  the pending records (sequence > checkpoint_sequence)
//   wh           a zero header (sentinel), or fewer than 48 bytes remain
// The scan starts at 0, so this chain must stay intact while anything is
// pending: any write into [0, wh) hides or corrupts acknowledged records.
// Each harness takes an ARBITRARY state satisfying Inv (so it stands for every
// history that reaches it), performs ONE real operation, and asserts
//   (a) which bytes were written (from the ghost event log),
//   (b) Inv for the post-state.
// In playback (native) mode the same pre-state is built through the public
// API on a real file and the observable result of a real scan is asserted.
// ===========================================================================

#[derive(Clone, Copy)]
struct Pre {
    rs: u64,
    off: u64,
    wh: u64,
    pb: u64,
    seq: u64,
    cseq: u64,
    asc: u64,
    skip_sync: bool,
}

/// Structural invariant (see above).  Regions smaller than one record header
/// are excluded: open() on such a (crafted) header writes its 48-byte sentinel
/// past the region; no tier creates regions below 64 KiB.
fn inv(rs: u64, wh: u64, pb: u64, seq: u64, cseq: u64) -> bool {
    let a = wh.wrapping_sub(pb);
    rs >= HDR
        && rs <= RS_MAX
        && wh <= rs
        && pb <= wh
        && (a == 0 || a > HDR)
        && (pb == 0 || pb > HDR)
        && ((pb == 0 && seq == cseq) || (pb > 0 && seq > cseq))
}

fn any_pre() -> Pre {
    let p = Pre {
        rs: kani::any(),
        off: kani::any(),
        wh: kani::any(),
        pb: kani::any(),
        seq: kani::any(),
        cseq: kani::any(),
        asc: kani::any(),
        skip_sync: kani::any(),
    };
    kani::assume(inv(p.rs, p.wh, p.pb, p.seq, p.cseq));
    // sequence numbers far from u64::MAX (2^62 appends are out of reach)
    kani::assume(p.seq < (1 << 62) && p.cseq < (1 << 62));
    kani::assume(p.off <= 8192);
    kani::assume(p.asc < (1 << 62));
    p
}

fn reset_log() {
    unsafe {
        EV_N = 0;
        WRITES = 0;
        SYNCS = 0;
    }
}

/// Build the pre-state: a struct literal over the data-less disk when
/// symbolic; through open/append/checkpoint/append on a real file in playback.
/// Returns the handle, the file, the header and the number of pending records.
fn build(p: &Pre) -> (EmbeddedWal, File, Header, usize) {
    let mut header = Header {
        magic: *b"MV2\0",
        version: 0x0201,
        footer_offset: 0,
        wal_offset: p.off,
        wal_size: p.rs,
        wal_checkpoint_pos: 0,
        wal_sequence: p.cseq,
        toc_checksum: [0u8; 32],
    };
    if symbolic() {
        header.wal_checkpoint_pos = p.wh - p.pb;
        let wal = EmbeddedWal {
            file: fake_file(),
            region_offset: p.off,
            region_size: p.rs,
            write_head: p.wh,
            checkpoint_head: p.wh - p.pb,
            pending_bytes: p.pb,
            sequence: p.seq,
            checkpoint_sequence: p.cseq,
            appends_since_checkpoint: p.asc,
            read_only: false,
            skip_sync: p.skip_sync,
        };
        reset_log();
        (wal, fake_file(), header, if p.pb > 0 { 1 } else { 0 })
    } else {
        // native: reach (wh, pb) with one old record of a-48 bytes, a
        // checkpoint, and one pending record of pb-48 bytes
        let a = p.wh - p.pb;
        let file = open_zero_disk(p.off + p.rs);
        header.wal_sequence = if a > 0 { p.cseq.saturating_sub(1) } else { p.cseq };
        let mut wal = EmbeddedWal::open(&file, &header).expect("native pre-state: open");
        if a > 0 {
            let old = vec![0xA5u8; (a - HDR) as usize];
            wal.append_entry(&old).expect("native pre-state: old record");
            wal.record_checkpoint(&mut header).expect("native pre-state: checkpoint");
        }
        let mut pending = 0;
        if p.pb > 0 {
            let pend = vec![0x5Au8; (p.pb - HDR) as usize];
            wal.append_entry(&pend).expect("native pre-state: pending record");
            pending = 1;
        }
        wal.set_skip_sync(p.skip_sync);
        (wal, file, header, pending)
    }
}

/// (a) write discipline + (b) Inv', from the ghost event log.
/// `rec` = Some(entry_size) when the operation appended a record.
fn check_step(p: &Pre, wal: &EmbeddedWal, rec: Option<u64>) {
    if !symbolic() {
        return;
    }
    let rs = p.rs;
    let wh2 = wal.write_head;
    let pb2 = wal.pending_bytes;
    assert!(wal.region_size == rs && wal.region_offset == p.off, "[C05] operation changed the region geometry");
    assert!(inv(rs, wh2, pb2, wal.sequence, wal.checkpoint_sequence), "[C05] log invariant broken: write head / pending bytes / sequence inconsistent after the operation");
    let n = unsafe { EV_N };
    assert!(n < EV_MAX, "[env] event log overflow");
    let mut first_write = true;
    let mut sentinel = false;
    let mut i = 0;
    while i < n {
        let kind = unsafe { EV_KIND[i] };
        if kind == EV_WRITE {
            let abs = unsafe { EV_POS[i] };
            let len = unsafe { EV_LEN[i] };
            let zero = unsafe { EV_ZERO[i] };
            assert!(abs >= p.off && abs - p.off <= rs && len <= rs - (abs - p.off), "[C05] write outside the log region");
            let pos = abs - p.off;
            if first_write && rec.is_some() {
                let entry = rec.unwrap_or(0);
                // the record itself: at the old write head, or at 0 when nothing was pending
                assert!(len == entry, "[C05] record write has the wrong size");
                assert!(pos == p.wh || (pos == 0 && p.pb == 0), "[C05] record written over pending or chained records (wrapped while records were pending)");
                assert!(pos + entry == wh2, "[C05] write head does not follow the appended record");
            } else if len > 0 {
                // sentinel / tail zeroing: only beyond the new write head, never into the chain
                assert!(zero, "[C05] non-zero bytes written outside a record");
                assert!(pos >= wh2, "[C05] sentinel or padding written into the record chain [0, write_head): pending records are hidden or overwritten");
                if pos == wh2 && len >= HDR {
                    sentinel = true;
                }
            }
            first_write = false;
        }
        i += 1;
    }
    // "never resurrects": a zero header must terminate the chain unless < 48 bytes remain
    // (when the head did not move, the sentinel the invariant assumes is still there)
    if wh2 != p.wh {
        assert!(sentinel || rs - wh2 < HDR, "[C05] no zero sentinel after the chain: stale bytes could be scanned as records");
    }
}

/// Native/observable oracle: a real scan returns exactly `expect_n` pending
/// records whose last one (if appended now) carries `last`.
fn check_scan_native(wal: &mut EmbeddedWal, file: &File, header: &Header, expect_n: usize, last: Option<(u64, &[u8])>) {
    if symbolic() {
        return;
    }
    let recs = wal.pending_records();
    match &recs {
        Ok(v) => {
            assert!(v.len() >= expect_n, "[C05] scan lost acknowledged pending records");
            assert!(v.len() <= expect_n, "[C05] scan reported records that are not pending");
            if let Some((seq, payload)) = last {
                let r = &v[v.len() - 1];
                assert!(r.sequence == seq && r.payload == payload, "[C05] scan returned an altered record");
            }
        }
        Err(_) => assert!(false, "[C05] scan failed after acknowledged operations"),
    }
    let reopened = EmbeddedWal::open(file, header);
    match reopened {
        Ok(mut w2) => {
            let r2 = w2.pending_records();
            match &r2 {
                Ok(v) => assert!(v.len() == expect_n, "[C05] reopen-from-header lost or resurrected records"),
                Err(_) => assert!(false, "[C05] scan after reopen failed"),
            }
        }
        Err(_) => assert!(false, "[C05] reopen-from-header failed"),
    }
}

fn step_append<const L: usize>() {
    let p = any_pre();
    let (mut wal, file, header, pending) = build(&p);
    let payload: [u8; L] = kani::any();
    let entry = HDR + L as u64;
    let seq0 = wal.sequence;
    let r = wal.append_entry(&payload);
    match &r {
        Ok(seq) => {
            assert!(*seq == seq0 + 1, "[C05] append did not return the next sequence number");
            if symbolic() {
                assert!(wal.pending_bytes == p.pb + entry, "[C05] pending byte count wrong after append");
                assert!(wal.sequence == seq0 + 1 && wal.checkpoint_sequence == p.cseq, "[C05] sequence bookkeeping wrong after append");
                check_step(&p, &wal, Some(entry));
                // C03: the acknowledgement implies the record was synced (unless batch mode)
                let n = unsafe { EV_N };
                let mut synced_after_record = false;
                let mut seen_record = false;
                let mut i = 0;
                while i < n {
                    let k = unsafe { EV_KIND[i] };
                    if k == EV_WRITE && !seen_record {
                        seen_record = true;
                    } else if k == EV_SYNC && seen_record {
                        synced_after_record = true;
                    }
                    i += 1;
                }
                assert!(p.skip_sync || synced_after_record, "[C03] append acknowledged before the record was fsynced");
            }
            kani::cover!(p.pb > 0, "append with records pending");
            kani::cover!(p.pb == 0 && p.wh > 0 && wal.write_head == entry, "append wrapped to offset 0");
            kani::cover!(p.rs - wal.write_head < HDR, "append left less than a header of tail");
            check_scan_native(&mut wal, &file, &header, pending + 1, Some((*seq, &payload)));
        }
        Err(e) => {
            assert!(matches!(e, MemvidError::CheckpointFailed { .. }), "[C05] append failed with an unexpected error kind");
            if symbolic() {
                assert!(unsafe { WRITES } == 0, "[C05] rejected append wrote to the log");
                assert!(wal.write_head == p.wh && wal.pending_bytes == p.pb && wal.sequence == p.seq, "[C05] rejected append changed the log state");
            }
            kani::cover!(p.pb > 0 && entry <= p.rs, "append rejected as full");
            check_scan_native(&mut wal, &file, &header, pending, None);
        }
    }
    leak(r);
    leak(wal);
    leak(file);
}

verif_proof_ghost! { [C05 C01 C03]
    #[kani::unwind(6)]
    fn c05_step_append_1() { step_append::<1>(); }
}
verif_proof_ghost! { [C05 C01 C03]
    #[kani::unwind(6)]
    fn c05_step_append_20() { step_append::<20>(); }
}
verif_proof_ghost! { [C05 C01 C03]
    #[kani::unwind(6)]
    fn c05_step_append_300() { step_append::<300>(); }
}

verif_proof_ghost! { [C05 C01]
    #[kani::unwind(6)]
    fn c05_step_checkpoint() {
        let p = any_pre();
        let (mut wal, file, mut header, _pending) = build(&p);
        let seq0 = wal.sequence;
        let r = wal.record_checkpoint(&mut header);
        assert!(r.is_ok(), "[C05] checkpoint failed");
        leak(r);
        if symbolic() {
            assert!(wal.pending_bytes == 0 && wal.checkpoint_sequence == seq0 && wal.sequence == seq0, "[C05] checkpoint bookkeeping wrong");
            assert!(header.wal_sequence == seq0, "[C05] checkpoint did not record the sequence in the header: old records would be reported as pending after reopen");
            assert!(header.wal_checkpoint_pos <= p.rs, "[C05] checkpoint position outside the region");
            check_step(&p, &wal, None);
        }
        kani::cover!(p.pb > 0, "checkpoint with records pending");
        kani::cover!(wal.write_head == 0 && p.wh > 0, "checkpoint wrapped the sentinel");
        check_scan_native(&mut wal, &file, &header, 0, None);
        leak(wal);
        leak(file);
    }
}

// --- scan step: records_after / open_internal with the scan itself replaced
// by a ghost that returns the chain the invariant describes (the real scan is
// exercised in part 2). ------------------------------------------------------
static mut SCAN_A: u64 = 0;
static mut SCAN_B: u64 = 0;
static mut SCAN_SEQ_OLD: u64 = 0;
static mut SCAN_SEQ_NEW: u64 = 0;
fn ghost_scan(_file: &mut File, _offset: u64, _size: u64) -> Result<(Vec<ScannedRecord>, u64)> {
    let mut v = Vec::new();
    unsafe {
        if SCAN_A > 0 {
            v.push(ScannedRecord { sequence: SCAN_SEQ_OLD, payload: Vec::new(), total_size: SCAN_A });
        }
        if SCAN_B > 0 {
            v.push(ScannedRecord { sequence: SCAN_SEQ_NEW, payload: Vec::new(), total_size: SCAN_B });
        }
        Ok((v, SCAN_A + SCAN_B))
    }
}

verif_proof_ghost! { [C05 C01]
    #[kani::unwind(6)]
    #[kani::stub(crate::io::wal::EmbeddedWal::scan_records, crate::io::wal::verif_wal::ghost_scan)]
    fn c05_step_scan() {
        let p = any_pre();
        // the live handle may have a stale write head (the scan re-derives it)
        let (mut wal, file, header, pending) = build(&p);
        if symbolic() {
            unsafe {
                SCAN_A = p.wh - p.pb;
                SCAN_B = p.pb;
                SCAN_SEQ_OLD = p.cseq;
                SCAN_SEQ_NEW = p.seq;
            }
            kani::assume(p.cseq >= 1 || p.wh == p.pb);
        }
        let recs = wal.pending_records();
        match &recs {
            Ok(v) => {
                assert!(v.len() == pending, "[C05] pending_records does not return exactly the records after the checkpoint");
                if symbolic() {
                    if p.pb > 0 {
                        assert!(v[0].sequence == p.seq, "[C05] pending_records returned the wrong record");
                    }
                    assert!(wal.pending_bytes == p.pb && wal.sequence == p.seq, "[C05] scan changed the bookkeeping of pending records");
                    check_step(&p, &wal, None);
                }
            }
            Err(_) => assert!(false, "[C05] scan failed on a well-formed log"),
        }
        kani::cover!(p.pb > 0 && p.wh == p.rs, "scan of an exactly full region");
        kani::cover!(p.pb > 0 && p.rs - p.wh < HDR && p.wh < p.rs, "scan with a short tail");
        check_scan_native(&mut wal, &file, &header, pending, None);
        leak(recs);
        leak(wal);
        leak(file);
    }
}

verif_proof_ghost! { [C05 C01 C04]
    #[kani::unwind(6)]
    #[kani::stub(crate::io::wal::EmbeddedWal::scan_records, crate::io::wal::verif_wal::ghost_scan)]
    fn c05_step_open() {
        let p = any_pre();
        kani::assume(p.cseq >= 1 || p.wh == p.pb);
        unsafe {
            SCAN_A = p.wh - p.pb;
            SCAN_B = p.pb;
            SCAN_SEQ_OLD = p.cseq;
            SCAN_SEQ_NEW = p.seq;
        }
        let header = Header {
            magic: *b"MV2\0",
            version: 0x0201,
            footer_offset: 0,
            wal_offset: p.off,
            wal_size: p.rs,
            wal_checkpoint_pos: kani::any(),
            wal_sequence: p.cseq,
            toc_checksum: [0u8; 32],
        };
        let file = fake_file();
        reset_log();
        let r = EmbeddedWal::open(&file, &header);
        match &r {
            Ok(wal) => {
                assert!(wal.pending_bytes == p.pb, "[C05] open computed the wrong pending byte count");
                assert!(wal.sequence == p.seq && wal.checkpoint_sequence == p.cseq, "[C05] open computed wrong sequence numbers");
                assert!(wal.write_head == p.wh, "[C05] open did not place the write head after the last record");
                check_step(&p, wal, None);
                kani::cover!(p.pb > 0 && p.wh == p.rs, "open of an exactly full region");
            }
            Err(_) => assert!(false, "[C05] open failed on a well-formed log"),
        }
        leak(r);
        leak(file);
    }
}

// ===========================================================================
// Part 2 — the on-disk record format, on the in-memory disk with data.
//   (2a) write_record / append_entry produce exactly the documented record
//        image at the write head (bytes checked by the solver);
//   (2b) scan_records on well-formed chain images (built cell by cell, so that
//        header fields read back stay concrete for CBMC) returns exactly the
//        chain: order, sequences, payloads; stops at the sentinel; ignores
//        stale bytes after it; copes with short tails and exact fits;
//        open()/pending_records() report exactly the records after the
//        checkpoint sequence.
// Together with part 1 (which bytes an operation may write, for every state)
// this gives: what was appended since the last checkpoint is what a scan
// returns.
// ===========================================================================

/// Write a well-formed record image at `at`: [seq u64][len u32][4 reserved][hash 32][payload].
fn put_record(file: &mut File, at: u64, seq: u64, payload: &[u8]) -> u64 {
    disk_put(file, at, &seq.to_le_bytes());
    disk_put(file, at + 8, &(payload.len() as u32).to_le_bytes());
    disk_put(file, at + 12, &[0u8; 4]);
    disk_put(file, at + 16, &oracle_hash(payload));
    disk_put(file, at + HDR, payload);
    at + HDR + payload.len() as u64
}

fn hdr_for(rs: u64, cseq: u64) -> Header {
    Header {
        magic: *b"MV2\0",
        version: 0x0201,
        footer_offset: 0,
        wal_offset: 0,
        wal_size: rs,
        wal_checkpoint_pos: 0,
        wal_sequence: cseq,
        toc_checksum: [0u8; 32],
    }
}

fn same_bytes(a: &[u8], b: &[u8]) -> bool {
    if a.len() != b.len() {
        return false;
    }
    let mut ok = true;
    let mut i = 0;
    while i < a.len() {
        if a[i] != b[i] {
            ok = false;
        }
        i += 1;
    }
    ok
}

// (2a) record layout written by append_entry
verif_proof_io! { [C05 C01 C30]
    #[kani::unwind(50)]
    fn c05_record_layout() {
        let mut file = open_zero_disk(200);
        let cseq: u64 = kani::any();
        kani::assume(cseq < (1 << 62));
        let header = hdr_for(200, cseq);
        let opened = EmbeddedWal::open(&file, &header);
        let mut wal = match opened {
            Ok(w) => w,
            Err(e) => { leak(e); assert!(false, "[C05] open failed on a zeroed region"); return; }
        };
        let payload: [u8; 12] = kani::any();
        let r = wal.append_entry(&payload);
        match &r {
            Ok(seq) => {
                assert!(*seq == cseq + 1, "[C05] append did not return the next sequence number");
                let want_seq = seq.to_le_bytes();
                let want_hash = oracle_hash(&payload);
                let mut i = 0;
                while i < 8 {
                    assert!(disk_get(&mut file, i as u64) == want_seq[i], "[C05] record header does not carry the sequence number");
                    i += 1;
                }
                assert!(disk_get(&mut file, 8) == 12 && disk_get(&mut file, 9) == 0 && disk_get(&mut file, 10) == 0 && disk_get(&mut file, 11) == 0, "[C05] record header does not carry the payload length");
                let mut j = 0;
                while j < 32 {
                    assert!(disk_get(&mut file, 16 + j as u64) == want_hash[j], "[C05] record header does not carry the payload checksum");
                    j += 1;
                }
                let mut k = 0;
                while k < 12 {
                    assert!(disk_get(&mut file, HDR + k as u64) == payload[k], "[C05] record payload bytes differ from what was appended");
                    k += 1;
                }
                // sentinel: a zero header right after the record
                let mut z = 0;
                while z < 48 {
                    assert!(disk_get(&mut file, 60 + z as u64) == 0, "[C05] no zero sentinel after the record");
                    z += 1;
                }
                kani::cover!(true, "record written");
            }
            Err(_) => assert!(false, "[C05] append into an empty 200-byte region was rejected"),
        }
        leak(r);
        leak(wal);
        leak(file);
    }
}

/// (2b) chain image: N records with consecutive sequence numbers from a symbolic
/// start, payload sizes alternating 12 / 1; `tail` decides what follows the chain.
/// tail: 0 = zeros, 1 = zero sentinel then arbitrary stale bytes, 2 = arbitrary
/// bytes in a tail shorter than a header (the region is sized to leave < 48).
/// The real scan_records is called directly (open()/records_after() add a Vec
/// iteration and sentinel writes whose guards turn the whole disk symbolic for
/// CBMC; their logic is covered in part 1 with the scan ghosted).
fn scan_image<const RS: u64>(n: usize, tail: u8) {
    let mut file = open_zero_disk(RS);
    let first: u64 = kani::any();
    kani::assume(first >= 1 && first < (1 << 40));
    let p12: [u8; 12] = kani::any();
    let p1: [u8; 1] = kani::any();
    let mut at = 0u64;
    let mut k = 0usize;
    while k < n {
        let seq = first + k as u64;
        at = if k % 2 == 0 { put_record(&mut file, at, seq, &p12) } else { put_record(&mut file, at, seq, &p1) };
        k += 1;
    }
    assert!(at <= RS, "[env] chain image larger than the region");
    if tail == 1 {
        // zero header already there (zero disk); stale garbage after it
        let g: [u8; 8] = kani::any();
        if at + HDR + 8 <= RS {
            disk_put(&mut file, at + HDR, &g);
        }
    } else if tail == 2 {
        assert!(RS - at < HDR, "[env] tail case needs a short tail");
        let g: [u8; 8] = kani::any();
        if at + 8 <= RS {
            disk_put(&mut file, at, &g);
        }
    }
    let scanned = EmbeddedWal::scan_records(&mut file, 0, RS);
    match &scanned {
        Ok((v, next_head)) => {
            assert!(v.len() >= n, "[C05] scan lost records of a well-formed chain");
            assert!(v.len() <= n, "[C05] scan reported stale bytes beyond the sentinel as records");
            assert!(*next_head == at, "[C05] scan does not place the next write head after the last record");
            let mut j = 0;
            while j < n {
                assert!(v[j].sequence == first + j as u64, "[C05] scan returned records out of order or with wrong sequence");
                let ok = if j % 2 == 0 { same_bytes(&v[j].payload, &p12) } else { same_bytes(&v[j].payload, &p1) };
                assert!(ok, "[C05] scan returned a record with altered payload");
                assert!(v[j].total_size == HDR + v[j].payload.len() as u64, "[C05] scan computed a wrong record size");
                j += 1;
            }
            kani::cover!(v.len() == n, "scan completed");
        }
        Err(_) => assert!(false, "[C05] scan failed on a well-formed log image"),
    }
    leak(scanned);
    leak(file);
}

verif_proof_io! { [C05 C01]
    #[kani::unwind(14)]
    fn c05_scan_three_records() { scan_image::<250>(3, 0); }
}
verif_proof_io! { [C05 C01]
    #[kani::unwind(14)]
    fn c05_scan_ignores_stale_bytes() { scan_image::<200>(2, 1); }
}
verif_proof_io! { [C05 C01]
    #[kani::unwind(14)]
    fn c05_scan_short_tail() { scan_image::<128>(2, 2); }
}
verif_proof_io! { [C05 C01]
    #[kani::unwind(14)]
    fn c05_scan_exact_fit() { scan_image::<109>(2, 0); }
}
verif_proof_io! { [C05 C01]
    #[kani::unwind(14)]
    fn c05_scan_empty() { scan_image::<100>(0, 1); }
}
