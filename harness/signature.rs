// harnesses for src/signature.rs (child module: sees private items of its parent)
