// Harnesses for src/types/sketch_track.rs.
#![allow(unused_imports, clippy::all, clippy::pedantic)]
use super::*;
use crate::verif_env::*;

#[path = "/verif/harness/playback/sketch_track.rs"]
mod playback;

// C39: no false negatives — every hash used to build a filter is reported present.
fn no_false_negative<const BYTES: usize>() {
    let hashes: [u64; 3] = kani::any();
    let n: usize = kani::any();
    kani::assume(n <= 3);
    let filter = build_term_filter(&hashes[..n], BYTES);
    assert!(filter.len() == BYTES, "[C39] term filter has the wrong size");
    let mut i = 0;
    while i < n {
        assert!(term_filter_maybe_contains(&filter, hashes[i]), "[C39] term filter reports an inserted token hash as absent (false negative)");
        i += 1;
    }
    // an empty filter contains nothing
    if n == 0 {
        let probe: u64 = kani::any();
        assert!(!term_filter_maybe_contains(&filter, probe), "[C39] empty term filter claims to contain a token");
    }
    kani::cover!(n == 3, "three tokens");
    leak(filter);
}
verif_proof! { [C39 C09]
    #[kani::unwind(18)]
    fn c39_filter_small() { no_false_negative::<16>(); }
}
verif_proof! { [C39 C09]
    #[kani::unwind(34)]
    fn c39_filter_medium() { no_false_negative::<32>(); }
}
verif_proof! { [C39 C09]
    #[kani::unwind(66)]
    fn c39_filter_large() { no_false_negative::<64>(); }
}

verif_proof! { [C39]
    #[kani::unwind(34)]
    fn c39_entry_small_roundtrip() {
        let e = SketchEntrySmall { simhash: kani::any(), term_filter: kani::any(), top_terms: kani::any() };
        let bytes = e.to_bytes();
        let g = SketchEntrySmall::from_bytes(&bytes);
        assert!(g.simhash == e.simhash && g.top_terms[0] == e.top_terms[0] && g.top_terms[1] == e.top_terms[1], "[C39] small sketch entry changed in the byte round trip");
        let mut i = 0;
        while i < TERM_FILTER_SIZE_SMALL {
            assert!(g.term_filter[i] == e.term_filter[i], "[C39] small sketch entry filter changed in the byte round trip");
            i += 1;
        }
        // and back: any 32-byte image decodes to an entry that re-encodes to the image
        let img: [u8; ENTRY_SIZE_SMALL] = kani::any();
        let back = SketchEntrySmall::from_bytes(&img).to_bytes();
        let mut j = 0;
        while j < ENTRY_SIZE_SMALL {
            assert!(back[j] == img[j], "[C39] small sketch entry image changed in the decode/encode round trip");
            j += 1;
        }
        kani::cover!(e.simhash != 0, "reached");
    }
}

verif_proof! { [C39]
    #[kani::unwind(26)]
    fn c39_header_roundtrip() {
        let h = SketchTrackHeader { magic: SKETCH_TRACK_MAGIC, version: kani::any(), entry_size: kani::any(), entry_count: kani::any(), flags: kani::any(), reserved: kani::any() };
        let bytes = h.to_bytes();
        let g = SketchTrackHeader::from_bytes(&bytes);
        match &g {
            Ok(g) => assert!(g.version == h.version && g.entry_size == h.entry_size && g.entry_count == h.entry_count && g.flags == h.flags && g.reserved == h.reserved, "[C39] sketch track header changed in the round trip"),
            Err(_) => assert!(false, "[C39] sketch track header rejected its own encoding"),
        }
        let mut img: [u8; 24] = kani::any();
        let bad = SketchTrackHeader::from_bytes(&img);
        if bad.is_ok() {
            assert!(img[0] == SKETCH_TRACK_MAGIC[0] && img[1] == SKETCH_TRACK_MAGIC[1] && img[2] == SKETCH_TRACK_MAGIC[2] && img[3] == SKETCH_TRACK_MAGIC[3], "[C39] sketch track header accepted a wrong magic");
        }
        kani::cover!(bad.is_err(), "wrong magic rejected");
        leak(g);
        leak(bad);
        let _ = &mut img;
    }
}
