// Harnesses for src/memvid/search/api.rs.
#![allow(unused_imports, clippy::all, clippy::pedantic)]
use super::*;
use crate::verif_env::*;
use crate::types::{FrameStatus, SearchRequest};

#[path = "/verif/harness/playback/msearch_api.rs"]
mod playback;

fn any_status() -> FrameStatus {
    let b: u8 = kani::any();
    kani::assume(b < 3);
    match b {
        0 => FrameStatus::Active,
        1 => FrameStatus::Deleted,
        _ => FrameStatus::Superseded,
    }
}

fn mk_request(as_of_frame: Option<u64>, as_of_ts: Option<i64>) -> SearchRequest {
    SearchRequest {
        query: String::new(),
        top_k: 10,
        snippet_chars: 100,
        uri: None,
        scope: None,
        cursor: None,
        as_of_frame,
        as_of_ts,
        no_sketch: false,
        acl_context: None,
        acl_enforcement_mode: Default::default(),
    }
}

// C11 kernel: the time-travel candidate set is exactly
// { active frames f : f.id <= as_of_frame and f.timestamp <= as_of_ts }.
fn replay_frame_ids<const N: usize>() {
    let mut toc = crate::memvid::lifecycle::empty_toc();
    let mut ts = [0i64; N];
    let mut st = [FrameStatus::Active; N];
    let mut i = 0;
    while i < N {
        ts[i] = kani::any();
        st[i] = any_status();
        toc.frames.push(mk_frame(i as u64, ts[i], st[i]));
        i += 1;
    }
    let mv = mk_memvid(toc, mk_header(65536));
    let req = mk_request(kani::any(), kani::any());
    let ids = mv.get_replay_frame_ids(&req);
    match &ids {
        Ok(v) => {
            // soundness
            let mut j = 0;
            while j < v.len() {
                let id = v[j];
                assert!(id < N as u64, "[C11] time-travel filter returned an unknown frame");
                let k = id as usize;
                assert!(st[k] == FrameStatus::Active, "[C11] time-travel filter returned an inactive frame");
                if let Some(n) = req.as_of_frame {
                    assert!(id <= n, "[C11] as_of_frame returned a frame with a larger id (from the future)");
                }
                if let Some(t) = req.as_of_ts {
                    assert!(ts[k] <= t, "[C11] as_of_ts returned a frame with a later timestamp (from the future)");
                }
                if j > 0 {
                    assert!(v[j - 1] < id, "[C11] time-travel filter returned a frame twice or out of order");
                }
                j += 1;
            }
            // completeness: filtering must not drop frames that satisfy the cut-offs
            let mut k = 0;
            while k < N {
                let ok = st[k] == FrameStatus::Active
                    && req.as_of_frame.map_or(true, |n| (k as u64) <= n)
                    && req.as_of_ts.map_or(true, |t| ts[k] <= t);
                if ok {
                    let mut found = false;
                    let mut j = 0;
                    while j < v.len() {
                        if v[j] == k as u64 { found = true; }
                        j += 1;
                    }
                    assert!(found, "[C11] time-travel filter dropped a frame that satisfies the cut-offs");
                }
                k += 1;
            }
            kani::cover!(v.len() == N, "all frames");
            kani::cover!(v.len() == 1 && req.as_of_ts.is_some(), "timestamp cut-off bites");
        }
        Err(_) => assert!(false, "[C11] get_replay_frame_ids failed"),
    }
    leak(ids);
    leak(req);
    leak(mv);
}
verif_proof! { [C11 C08]
    #[kani::unwind(5)]
    #[kani::use_stub_set(crate::verif_env::memvid_stubs)]
    fn c11_replay_frame_ids_3() { replay_frame_ids::<3>(); }
}
verif_proof! { [C11 C08]
    #[kani::unwind(6)]
    #[kani::use_stub_set(crate::verif_env::memvid_stubs)]
    fn c11_replay_frame_ids_4() { replay_frame_ids::<4>(); }
}
verif_proof! { [C11 C08]
    #[kani::unwind(7)]
    #[kani::use_stub_set(crate::verif_env::memvid_stubs)]
    fn c11_replay_frame_ids_5() { replay_frame_ids::<5>(); }
}
