// Shared verification environment: stubs (the trusted base), the in-memory
// disk with its ghost event log, and the harness-definition macros.
// Included into memvid-core as `crate::verif_env` by the hook at the end of
// src/lib.rs; compiled only by Kani (cfg(kani)) or with --cfg memvid_verif.
#![allow(dead_code, unused_imports, unused_macros, static_mut_refs, clippy::all, clippy::pedantic)]

use std::fs::File;
use std::io::{self, SeekFrom};

// Named stub sets (kani::stub_set!): stacking more than ~12 `#[kani::stub]`
// attributes on one harness overflows the macro recursion limit of the crate.
#[cfg(kani)]
kani::stub_set!(pub(crate) base_stubs,
    stub(tracing::__macro_support::__is_enabled, crate::verif_env::stub_is_enabled),
    stub(tracing::callsite::DefaultCallsite::register, crate::verif_env::stub_register),
    stub(tracing::Event::dispatch, crate::verif_env::stub_dispatch),
    stub(tracing::dispatcher::get_default, crate::verif_env::stub_get_default),
    stub(crate::verif_env::symbolic, crate::verif_env::symbolic_yes),
);
#[cfg(kani)]
kani::stub_set!(pub(crate) io_stubs,
    use_stub_set(crate::verif_env::base_stubs),
    stub(<std::fs::File as std::io::Seek>::seek, crate::verif_env::stub_seek),
    stub(<std::fs::File as std::io::Read>::read, crate::verif_env::stub_read),
    stub(<std::fs::File as std::io::Write>::write, crate::verif_env::stub_write),
    stub(<std::fs::File as std::io::Write>::flush, crate::verif_env::stub_flush),
    stub(std::fs::File::sync_all, crate::verif_env::stub_sync_all),
    stub(std::fs::File::sync_data, crate::verif_env::stub_sync_all),
    stub(std::fs::File::set_len, crate::verif_env::stub_set_len),
    stub(std::fs::File::try_clone, crate::verif_env::stub_try_clone),
    stub(blake3::hash, crate::verif_env::stub_hash),
);

// Data-less disk: writes only append to the event log (position, length,
// all-zero flag), so region sizes and offsets can be fully symbolic.
#[cfg(kani)]
kani::stub_set!(pub(crate) ghost_io_stubs,
    use_stub_set(crate::verif_env::base_stubs),
    stub(<std::fs::File as std::io::Seek>::seek, crate::verif_env::stub_seek),
    stub(<std::fs::File as std::io::Read>::read, crate::verif_env::stub_read_ghost),
    stub(<std::fs::File as std::io::Write>::write, crate::verif_env::stub_write_ghost),
    stub(<std::fs::File as std::io::Write>::flush, crate::verif_env::stub_flush),
    stub(std::fs::File::sync_all, crate::verif_env::stub_sync_all),
    stub(std::fs::File::sync_data, crate::verif_env::stub_sync_all),
    stub(std::fs::File::set_len, crate::verif_env::stub_set_len_ghost),
    stub(std::fs::File::try_clone, crate::verif_env::stub_try_clone),
    stub(blake3::hash, crate::verif_env::stub_hash),
);

/// Define a Kani proof harness tagged with the property ids it serves (the
/// tags are documentation; /verif/registry.py decides what runs for a
/// property).  The tracing stubs are always applied (Kani 0.68 cannot compile
/// tracing's thread-local dispatcher); further attributes (unwind, extra
/// stubs) are passed through.
macro_rules! verif_proof {
    ([$($tag:ident)*] $(#[$m:meta])* fn $name:ident() $body:block) => {
            #[cfg(kani)]
            #[kani::proof]
            #[kani::use_stub_set(crate::verif_env::base_stubs)]
            $(#[$m])*
            fn $name() $body
    };
}
pub(crate) use verif_proof;

/// Same, plus the file-system and hash stubs (in-memory disk, weak hash).
macro_rules! verif_proof_io {
    ([$($tag:ident)*] $(#[$m:meta])* fn $name:ident() $body:block) => {
            #[cfg(kani)]
            #[kani::proof]
            #[kani::use_stub_set(crate::verif_env::io_stubs)]
            $(#[$m])*
            fn $name() $body
    };
}
pub(crate) use verif_proof_io;

/// Same as verif_proof_io! but over the data-less ghost disk.
macro_rules! verif_proof_ghost {
    ([$($tag:ident)*] $(#[$m:meta])* fn $name:ident() $body:block) => {
            #[cfg(kani)]
            #[kani::proof]
            #[kani::use_stub_set(crate::verif_env::ghost_io_stubs)]
            $(#[$m])*
            fn $name() $body
    };
}
pub(crate) use verif_proof_ghost;


/// Straight-line `for i in 0..min(n,128)`: no loop for CBMC to unwind, so the
/// per-harness unwind bound only has to cover the loops of the code under
/// test (heap-backed iterators turn symbolic and would otherwise be unrolled
/// to the bound needed by these copies).
macro_rules! unrolled_128 {
    ($n:expr, $i:ident => $body:block) => {
        unrolled_128!(@go $n, $i, $body, [0 1 2 3 4 5 6 7 8 9 10 11 12 13 14 15 16 17 18 19 20 21 22 23 24 25 26 27 28 29 30 31 32 33 34 35 36 37 38 39 40 41 42 43 44 45 46 47 48 49 50 51 52 53 54 55 56 57 58 59 60 61 62 63 64 65 66 67 68 69 70 71 72 73 74 75 76 77 78 79 80 81 82 83 84 85 86 87 88 89 90 91 92 93 94 95 96 97 98 99 100 101 102 103 104 105 106 107 108 109 110 111 112 113 114 115 116 117 118 119 120 121 122 123 124 125 126 127]);
    };
    (@go $n:expr, $i:ident, $body:block, [$($k:literal)*]) => {
        $( if $k < $n { let $i: usize = $k; $body } )*
    };
}
pub(crate) use unrolled_128;
/// Same for at most 4 iterations (large bodies: 128 copies of a body full of
/// assertions make goto-instrument's loop normalisation crawl).
macro_rules! unrolled_4 {
    ($n:expr, $i:ident => $body:block) => {
        if 0 < $n { let $i: usize = 0; $body }
        if 1 < $n { let $i: usize = 1; $body }
        if 2 < $n { let $i: usize = 2; $body }
        if 3 < $n { let $i: usize = 3; $body }
    };
}
pub(crate) use unrolled_4;
pub(crate) const UNROLL_MAX: usize = 128;

// ---------------------------------------------------------------------------
// Symbolic-vs-playback switch.  Under verification `symbolic` is stubbed to
// `symbolic_yes`; under `cargo kani playback` (native execution of the same
// harness with the solver's values) stubs are not applied, so it returns
// false and the harness uses a real temporary file and the real blake3.
// ---------------------------------------------------------------------------
#[inline(never)]
pub(crate) fn symbolic() -> bool {
    false
}
pub(crate) fn symbolic_yes() -> bool {
    true
}

// ---------------------------------------------------------------------------
// tracing: no observable effect on state.
// ---------------------------------------------------------------------------
pub(crate) fn stub_is_enabled(_m: &tracing::Metadata<'static>, _i: tracing::subscriber::Interest) -> bool {
    false
}
pub(crate) fn stub_register(_c: &'static tracing::callsite::DefaultCallsite) -> tracing::subscriber::Interest {
    tracing::subscriber::Interest::never()
}
pub(crate) fn stub_dispatch<'a>(_m: &'static tracing::Metadata<'static>, _f: &'a tracing::field::ValueSet<'_>)
where
    'a: 'a,
{
}
pub(crate) fn stub_get_default<T, F>(mut f: F) -> T
where
    F: FnMut(&tracing::Dispatch) -> T,
{
    let d = tracing::Dispatch::none();
    f(&d)
}

/// `format!` → empty string: error *messages* are never observed, only variants.
pub(crate) fn stub_format(_args: core::fmt::Arguments<'_>) -> String {
    String::new()
}

pub(crate) fn stub_random_state() -> std::hash::RandomState {
    unsafe { core::mem::transmute::<[u64; 2], std::hash::RandomState>([1, 2]) }
}

// ---------------------------------------------------------------------------
// Hash: any deterministic function of the bytes.  KEY is nondeterministic
// (set by harnesses that want "for every hash of this family").
// ---------------------------------------------------------------------------
pub(crate) static mut HASH_KEY: u8 = 0;
pub(crate) fn weak_hash(input: &[u8]) -> [u8; 32] {
    let mut out = [0u8; 32];
    let n = input.len();
    out[0] = n as u8;
    out[4] = unsafe { HASH_KEY };
    if n > 0 {
        out[1] = input[0];
        out[2] = input[n - 1];
        out[3] = input[n / 2];
    }
    out
}
pub(crate) fn stub_hash(input: &[u8]) -> blake3::Hash {
    blake3::Hash::from_bytes(weak_hash(input))
}
/// Hash used by harness oracles: the stub under verification, real blake3 in playback.
pub(crate) fn oracle_hash(input: &[u8]) -> [u8; 32] {
    if symbolic() { weak_hash(input) } else { *blake3::hash(input).as_bytes() }
}

// ---------------------------------------------------------------------------
// In-memory disk with a ghost event log.
// One shared file offset (all handles are dup()s of one description, as in
// memvid, where the WAL's handle is `file.try_clone()`).
// ---------------------------------------------------------------------------
pub(crate) const DISK_MAX: usize = 512;
pub(crate) static mut DISK: [u8; DISK_MAX] = [0; DISK_MAX];
pub(crate) static mut DISK_LEN: usize = 0;
pub(crate) static mut POS: u64 = 0;

pub(crate) const EV_WRITE: u8 = 1;
pub(crate) const EV_SYNC: u8 = 2;
pub(crate) const EV_SETLEN: u8 = 3;
pub(crate) const EV_MAX: usize = 24;
pub(crate) static mut EV_KIND: [u8; EV_MAX] = [0; EV_MAX];
pub(crate) static mut EV_POS: [u64; EV_MAX] = [0; EV_MAX];
pub(crate) static mut EV_LEN: [u64; EV_MAX] = [0; EV_MAX];
pub(crate) static mut EV_ZERO: [bool; EV_MAX] = [false; EV_MAX];
pub(crate) static mut EV_N: usize = 0;
/// Number of write()/set_len() calls observed (not capped by EV_MAX).
pub(crate) static mut WRITES: usize = 0;
pub(crate) static mut SYNCS: usize = 0;

/// Protected extents: a write that intersects one sets CLOBBER.
pub(crate) const PROT_MAX: usize = 4;
pub(crate) static mut PROT_START: [u64; PROT_MAX] = [0; PROT_MAX];
pub(crate) static mut PROT_LEN: [u64; PROT_MAX] = [0; PROT_MAX];
pub(crate) static mut PROT_N: usize = 0;
pub(crate) static mut CLOBBER: bool = false;
/// A write reached outside [WRITE_LO, WRITE_HI) when the window is armed.
pub(crate) static mut WRITE_LO: u64 = 0;
pub(crate) static mut WRITE_HI: u64 = u64::MAX;
pub(crate) static mut OUT_OF_WINDOW: bool = false;

fn log_event(kind: u8, pos: u64, len: u64) {
    unsafe {
        if EV_N < EV_MAX {
            EV_KIND[EV_N] = kind;
            EV_POS[EV_N] = pos;
            EV_LEN[EV_N] = len;
            EV_N += 1;
        }
    }
}

pub(crate) fn stub_seek(_f: &mut File, pos: SeekFrom) -> io::Result<u64> {
    unsafe {
        match pos {
            SeekFrom::Start(p) => POS = p,
            SeekFrom::End(d) => POS = (DISK_LEN as i64 + d) as u64,
            SeekFrom::Current(d) => POS = (POS as i64 + d) as u64,
        }
        Ok(POS)
    }
}
pub(crate) fn stub_read(_f: &mut File, buf: &mut [u8]) -> io::Result<usize> {
    unsafe {
        let p = POS as usize;
        if POS >= DISK_LEN as u64 {
            return Ok(0);
        }
        let n = core::cmp::min(buf.len(), DISK_LEN - p);
        // cell by cell (not memcpy), straight-line: with --max-field-sensitivity-array-size >= DISK_MAX
        // concretely-indexed cells stay concrete in CBMC's symex
        if n <= UNROLL_MAX {
            unrolled_128!(n, i => { buf[i] = DISK[p + i]; });
        } else {
            core::ptr::copy_nonoverlapping((&raw const DISK as *const u8).add(p), buf.as_mut_ptr(), n);
        }
        POS += n as u64;
        Ok(n)
    }
}
pub(crate) fn stub_write(_f: &mut File, buf: &[u8]) -> io::Result<usize> {
    unsafe {
        let p = POS;
        let n = buf.len() as u64;
        // the modelled disk is finite: a harness must size it so that legal writes fit
        assert!(p <= DISK_MAX as u64 && n <= DISK_MAX as u64 - p, "[env] write past modelled disk");
        let mut i = 0;
        while i < PROT_N {
            if p < PROT_START[i] + PROT_LEN[i] && PROT_START[i] < p + n && n > 0 {
                CLOBBER = true;
            }
            i += 1;
        }
        if n > 0 && (p < WRITE_LO || p + n > WRITE_HI) {
            OUT_OF_WINDOW = true;
        }
        if buf.len() <= UNROLL_MAX {
            unrolled_128!(buf.len(), i => { DISK[p as usize + i] = buf[i]; });
        } else {
            core::ptr::copy_nonoverlapping(buf.as_ptr(), (&raw mut DISK as *mut u8).add(p as usize), buf.len());
        }
        POS += n;
        if (POS as usize) > DISK_LEN {
            DISK_LEN = POS as usize;
        }
        WRITES += 1;
        log_event(EV_WRITE, p, n);
        Ok(buf.len())
    }
}
pub(crate) fn stub_flush(_f: &mut File) -> io::Result<()> {
    Ok(())
}
pub(crate) fn stub_sync_all(_f: &File) -> io::Result<()> {
    unsafe {
        SYNCS += 1;
    }
    log_event(EV_SYNC, 0, 0);
    Ok(())
}
pub(crate) fn stub_set_len(_f: &File, len: u64) -> io::Result<()> {
    unsafe {
        assert!(len <= DISK_MAX as u64, "[env] set_len past modelled disk");
        let new = len as usize;
        // bytes cut off by a shrink (and bytes exposed by a grow) read as zero; memset, not a loop
        if new < DISK_LEN {
            core::ptr::write_bytes((&raw mut DISK as *mut u8).add(new), 0u8, DISK_LEN - new);
        }
        DISK_LEN = new;
        WRITES += 1;
    }
    log_event(EV_SETLEN, len, 0);
    Ok(())
}
pub(crate) fn stub_try_clone(_f: &File) -> io::Result<File> {
    use std::os::fd::FromRawFd;
    Ok(unsafe { File::from_raw_fd(3) })
}

/// A file whose contents are `initial`.  Symbolic run: the in-memory disk;
/// playback: a real temporary file.
pub(crate) fn open_disk(initial: &[u8]) -> File {
    if symbolic() {
        use std::os::fd::FromRawFd;
        unsafe {
            let mut i = 0;
            while i < initial.len() {
                DISK[i] = initial[i];
                i += 1;
            }
            DISK_LEN = initial.len();
            POS = 0;
            File::from_raw_fd(3)
        }
    } else {
        use std::io::{Seek, Write};
        let mut f = playback_file();
        f.write_all(initial).expect("write initial image");
        f.seek(SeekFrom::Start(0)).expect("rewind");
        f
    }
}

/// Read back the whole file (for oracles).
pub(crate) fn disk_byte(file: &mut File, at: u64) -> u8 {
    use std::io::{Read, Seek};
    let mut b = [0u8; 1];
    let _ = file.seek(SeekFrom::Start(at));
    let _ = file.read(&mut b);
    b[0]
}

/// Drop nothing: values with recursive drop glue (MemvidError → io::Error) and
/// fake file handles must never be dropped inside a harness.
pub(crate) fn leak<T>(v: T) {
    core::mem::forget(v);
}

/// A zero-filled file of `len` bytes (symbolic run: the in-memory disk).
pub(crate) fn open_zero_disk(len: u64) -> File {
    if symbolic() {
        use std::os::fd::FromRawFd;
        unsafe {
            DISK_LEN = len as usize;
            POS = 0;
            File::from_raw_fd(3)
        }
    } else {
        let f = playback_file();
        f.set_len(len).expect("set_len");
        f
    }
}

/// Playback only: an anonymous real file (created, then unlinked).  Not
/// `tempfile::tempfile()`: its thread-local RNG drags `catch_unwind` into the
/// reachable set, which Kani 0.68 cannot compile.
fn playback_file() -> File {
    let path = "/tmp/verif_playback.bin";
    let f = std::fs::OpenOptions::new().read(true).write(true).create(true).truncate(true).open(path).expect("playback file");
    let _ = std::fs::remove_file(path);
    f
}

// --- ghost (data-less) disk ---------------------------------------------------
pub(crate) fn stub_write_ghost(_f: &mut File, buf: &[u8]) -> io::Result<usize> {
    unsafe {
        let p = POS;
        let n = buf.len() as u64;
        // zero-ness is only tracked for short writes (sentinels and tail padding are <= 48 bytes)
        let mut z = buf.len() <= 48;
        if z {
            unrolled_128!(buf.len(), i => { if buf[i] != 0 { z = false; } });
        }
        if EV_N < EV_MAX {
            EV_ZERO[EV_N] = z;
        }
        POS = p.wrapping_add(n);
        WRITES += 1;
        log_event(EV_WRITE, p, n);
        Ok(buf.len())
    }
}
pub(crate) fn stub_read_ghost(_f: &mut File, _buf: &mut [u8]) -> io::Result<usize> {
    assert!(false, "[env] unexpected read from the data-less disk");
    Ok(0)
}
pub(crate) fn stub_set_len_ghost(_f: &File, len: u64) -> io::Result<()> {
    unsafe {
        WRITES += 1;
    }
    log_event(EV_SETLEN, len, 0);
    Ok(())
}
pub(crate) fn fake_file() -> File {
    use std::os::fd::FromRawFd;
    unsafe { File::from_raw_fd(3) }
}

/// Store bytes into the file image at `at` (symbolic run: cell by cell into the
/// in-memory disk, keeping concretely-indexed cells concrete; playback: real writes).
pub(crate) fn disk_put(file: &mut File, at: u64, bytes: &[u8]) {
    if symbolic() {
        unsafe {
            assert!(bytes.len() <= UNROLL_MAX, "[env] disk_put of more than 128 bytes");
            unrolled_128!(bytes.len(), i => { DISK[at as usize + i] = bytes[i]; });
            if at as usize + bytes.len() > DISK_LEN {
                DISK_LEN = at as usize + bytes.len();
            }
        }
    } else {
        use std::io::{Seek, Write};
        file.seek(SeekFrom::Start(at)).expect("seek");
        file.write_all(bytes).expect("write");
    }
}
/// Read one byte of the file image.
pub(crate) fn disk_get(file: &mut File, at: u64) -> u8 {
    if symbolic() {
        unsafe { DISK[at as usize] }
    } else {
        disk_byte(file, at)
    }
}

// ---------------------------------------------------------------------------
// MemDisk: a tiny Read + Write + Seek object over a fixed 64-byte array, for
// code that is generic over its reader/writer (time index, header codec
// read/write).  64 cells: within CBMC's default per-cell array tracking.
// ---------------------------------------------------------------------------
pub(crate) const MEM_MAX: usize = 64;
pub(crate) struct MemDisk {
    pub(crate) bytes: [u8; MEM_MAX],
    pub(crate) len: usize,
    pub(crate) pos: u64,
    pub(crate) writes: usize,
}
impl MemDisk {
    pub(crate) fn new() -> Self {
        MemDisk { bytes: [0; MEM_MAX], len: 0, pos: 0, writes: 0 }
    }
    pub(crate) fn with(bytes: [u8; MEM_MAX], len: usize) -> Self {
        MemDisk { bytes, len, pos: 0, writes: 0 }
    }
}
impl io::Read for MemDisk {
    fn read(&mut self, buf: &mut [u8]) -> io::Result<usize> {
        if self.pos >= self.len as u64 {
            return Ok(0);
        }
        let p = self.pos as usize;
        let n = core::cmp::min(buf.len(), self.len - p);
        unrolled_128!(n, i => { buf[i] = self.bytes[p + i]; });
        self.pos += n as u64;
        Ok(n)
    }
}
impl io::Write for MemDisk {
    fn write(&mut self, buf: &[u8]) -> io::Result<usize> {
        let p = self.pos as usize;
        assert!(self.pos <= MEM_MAX as u64 && buf.len() <= MEM_MAX - p, "[env] write past MemDisk");
        unrolled_128!(buf.len(), i => { self.bytes[p + i] = buf[i]; });
        self.pos += buf.len() as u64;
        if self.pos as usize > self.len {
            self.len = self.pos as usize;
        }
        self.writes += 1;
        Ok(buf.len())
    }
    fn flush(&mut self) -> io::Result<()> {
        Ok(())
    }
}
impl io::Seek for MemDisk {
    fn seek(&mut self, pos: SeekFrom) -> io::Result<u64> {
        match pos {
            SeekFrom::Start(p) => self.pos = p,
            SeekFrom::End(d) => self.pos = (self.len as i64 + d) as u64,
            SeekFrom::Current(d) => self.pos = (self.pos as i64 + d) as u64,
        }
        Ok(self.pos)
    }
}

// blake3::Hasher as a ghost accumulator (real compression reaches cpuid,
// which Kani cannot model): any deterministic function of the byte stream.
pub(crate) static mut HACC: [u8; 4] = [0; 4];
pub(crate) fn stub_hasher_new() -> blake3::Hasher {
    unsafe {
        HACC = [0; 4];
        core::mem::zeroed()
    }
}
pub(crate) fn stub_hasher_update<'a>(h: &'a mut blake3::Hasher, input: &[u8]) -> &'a mut blake3::Hasher {
    unsafe {
        let n = input.len();
        HACC[0] = HACC[0].wrapping_add(n as u8);
        if n > 0 {
            HACC[1] = HACC[1].wrapping_mul(31).wrapping_add(input[0]);
            HACC[2] = HACC[2].wrapping_mul(17).wrapping_add(input[n - 1]);
            HACC[3] = HACC[3].wrapping_add(input[n / 2]);
        }
    }
    h
}
pub(crate) fn stub_hasher_finalize(_h: &blake3::Hasher) -> blake3::Hash {
    let mut out = [0u8; 32];
    unsafe {
        out[0] = HACC[0];
        out[1] = HACC[1];
        out[2] = HACC[2];
        out[3] = HACC[3];
    }
    blake3::Hash::from_bytes(out)
}
#[cfg(kani)]
kani::stub_set!(pub(crate) hasher_stubs,
    stub(blake3::Hasher::new, crate::verif_env::stub_hasher_new),
    stub(blake3::Hasher::update, crate::verif_env::stub_hasher_update),
    stub(blake3::Hasher::finalize, crate::verif_env::stub_hasher_finalize),
);

// ---------------------------------------------------------------------------
// A Memvid handle built field by field (no file system, no open()).  The file
// is a fake descriptor (all I/O goes to the stubs), lock and WAL are zeroed
// unless the harness replaces them.  Never drop it: Memvid::drop commits.
// ---------------------------------------------------------------------------
pub(crate) fn mk_frame(id: u64, ts: i64, status: crate::types::FrameStatus) -> crate::types::Frame {
    crate::types::Frame {
        id,
        timestamp: ts,
        anchor_ts: None,
        anchor_source: None,
        kind: None,
        track: None,
        payload_offset: 0,
        payload_length: 0,
        checksum: [0u8; 32],
        uri: None,
        title: None,
        canonical_encoding: crate::types::CanonicalEncoding::Plain,
        canonical_length: None,
        metadata: None,
        search_text: None,
        tags: Vec::new(),
        labels: Vec::new(),
        extra_metadata: std::collections::BTreeMap::new(),
        content_dates: Vec::new(),
        role: crate::types::FrameRole::Document,
        parent_id: None,
        chunk_index: None,
        chunk_count: None,
        chunk_manifest: None,
        status,
        supersedes: None,
        superseded_by: None,
        source_sha256: None,
        source_path: None,
        enrichment_state: crate::types::EnrichmentState::default(),
    }
}

pub(crate) fn mk_header(wal_size: u64) -> crate::types::Header {
    crate::types::Header {
        magic: crate::constants::MAGIC,
        version: crate::constants::SPEC_VERSION,
        footer_offset: 0,
        wal_offset: crate::constants::WAL_OFFSET,
        wal_size,
        wal_checkpoint_pos: 0,
        wal_sequence: 0,
        toc_checksum: [0; 32],
    }
}

pub(crate) fn mk_memvid(toc: crate::types::Toc, header: crate::types::Header) -> crate::memvid::lifecycle::Memvid {
    crate::memvid::lifecycle::Memvid {
        file: fake_file(),
        path: std::path::PathBuf::new(),
        lock: unsafe { core::mem::zeroed() },
        read_only: false,
        header,
        toc,
        wal: unsafe { core::mem::zeroed() },
        pending_frame_inserts: 0,
        data_end: 0,
        cached_payload_end: 0,
        generation: 0,
        lock_settings: crate::memvid::lifecycle::LockSettings::default(),
        lex_enabled: false,
        lex_index: None,
        #[cfg(feature = "lex")]
        lex_storage: std::sync::Arc::new(std::sync::RwLock::new(crate::search::EmbeddedLexStorage::new())),
        vec_enabled: false,
        vec_compression: crate::types::VectorCompression::None,
        vec_model: None,
        vec_index: None,
        clip_enabled: false,
        clip_index: None,
        dirty: false,
        #[cfg(feature = "lex")]
        tantivy: None,
        #[cfg(feature = "lex")]
        tantivy_dirty: false,
        memories_track: crate::types::MemoriesTrack::new(),
        logic_mesh: crate::types::LogicMesh::new(),
        sketch_track: crate::types::SketchTrack::default(),
        schema_registry: crate::types::SchemaRegistry::empty(),
        schema_strict: false,
        batch_opts: None,
    }
}
#[cfg(kani)]
kani::stub_set!(pub(crate) memvid_stubs,
    stub(std::hash::RandomState::new, crate::verif_env::stub_random_state),
);

/// A placeholder value of a type that is never looked into (all its methods
/// are stubbed): every byte 1, so that non-null / non-zero niches are valid.
#[repr(align(16))]
struct Ones([u8; 1024]);
pub(crate) fn placeholder<T>() -> T {
    assert!(core::mem::size_of::<T>() <= 1024 && core::mem::align_of::<T>() <= 16, "[env] placeholder too small");
    let b = Ones([1u8; 1024]);
    unsafe { core::ptr::read(b.0.as_ptr() as *const T) }
}

/// Frame::clone replaced by a copy of the scalar fields (harness frames carry empty strings,
/// vectors and maps; the real clone walks all of them with bounds CBMC cannot see concretely).
pub(crate) static mut LAST_CLONED_FRAME: u64 = u64::MAX;
pub(crate) fn stub_frame_clone(f: &crate::types::Frame) -> crate::types::Frame {
    unsafe { LAST_CLONED_FRAME = f.id; }
    let mut c = mk_frame(f.id, f.timestamp, f.status);
    c.payload_offset = f.payload_offset;
    c.payload_length = f.payload_length;
    c.checksum = f.checksum;
    c.canonical_encoding = f.canonical_encoding;
    c.canonical_length = f.canonical_length;
    c.role = f.role;
    c.parent_id = f.parent_id;
    c.chunk_index = f.chunk_index;
    c.chunk_count = f.chunk_count;
    c.supersedes = f.supersedes;
    c.superseded_by = f.superseded_by;
    c.enrichment_state = f.enrichment_state;
    c
}

// SipHash replaced by a constant hash: every key of a std HashMap/HashSet lands in the same
// bucket chain and is told apart by `==` alone. Set/map semantics do not depend on the hash
// function, so this only removes the SipHash rounds (and their loops) from the query.
pub(crate) fn stub_default_hasher_write(_h: &mut std::hash::DefaultHasher, _b: &[u8]) {}
pub(crate) fn stub_default_hasher_write_str(_h: &mut std::hash::DefaultHasher, _s: &str) {}
pub(crate) fn stub_default_hasher_finish(_h: &std::hash::DefaultHasher) -> u64 { 0 }
#[cfg(kani)]
kani::stub_set!(pub(crate) constant_hash_stubs,
    stub(<std::hash::DefaultHasher as core::hash::Hasher>::write, crate::verif_env::stub_default_hasher_write),
    stub(<std::hash::DefaultHasher as core::hash::Hasher>::write_str, crate::verif_env::stub_default_hasher_write_str),
    stub(<std::hash::DefaultHasher as core::hash::Hasher>::finish, crate::verif_env::stub_default_hasher_finish),
);
