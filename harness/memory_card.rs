// harnesses for src/types/memory_card.rs (child module: sees private items of its parent)
