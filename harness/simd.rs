// Harnesses for src/simd.rs (built with --no-default-features: the scalar
// definition; the `wide` SIMD build lowers to x86 intrinsics Kani cannot model).
// Each harness carries ONE float obligation: equivalence queries over several
// bit-blasted f32 multipliers/adders at once did not finish in 7 minutes.
#![allow(unused_imports, clippy::all, clippy::pedantic)]
use super::*;
use crate::verif_env::*;

#[path = "/verif/harness/playback/simd.rs"]
mod playback;

fn finite(x: f32) -> bool {
    !x.is_nan() && !x.is_infinite()
}
fn any_finite<const N: usize>() -> [f32; N] {
    let a: [f32; N] = kani::any();
    let mut i = 0;
    while i < N {
        kani::assume(finite(a[i]));
        i += 1;
    }
    a
}

fn zero_on_equal<const N: usize>() {
    let a = any_finite::<N>();
    let aa = l2_distance_squared_simd(&a, &a);
    assert!(aa == 0.0, "[C38] distance of a vector to itself is not zero");
    assert!(l2_distance_simd(&a, &a) == 0.0, "[C38] L2 distance of a vector to itself is not zero");
    kani::cover!(N == 0 || a[0] != 0.0, "non-zero vector");
}
verif_proof! { [C38]
    #[kani::unwind(6)]
    fn c38_zero_on_equal_len4() { zero_on_equal::<4>(); }
}
verif_proof! { [C38]
    #[kani::unwind(11)]
    fn c38_zero_on_equal_len9() { zero_on_equal::<9>(); }
}

fn non_negative<const N: usize>() {
    let a = any_finite::<N>();
    let b = any_finite::<N>();
    let ab = l2_distance_squared_simd(&a, &b);
    assert!(ab.is_nan() || ab >= 0.0, "[C38] squared L2 distance is negative");
    kani::cover!(ab > 0.0, "distinct vectors");
}
verif_proof! { [C38]
    #[kani::unwind(4)]
    fn c38_non_negative_len2() { non_negative::<2>(); }
}

fn symmetric<const N: usize>() {
    let a = any_finite::<N>();
    let b = any_finite::<N>();
    let ab = l2_distance_squared_simd(&a, &b);
    let ba = l2_distance_squared_simd(&b, &a);
    assert!(ab.to_bits() == ba.to_bits() || (ab.is_nan() && ba.is_nan()), "[C38] squared L2 distance is not symmetric");
    kani::cover!(ab > 0.0, "distinct vectors");
}
verif_proof! { [C38]
    #[kani::unwind(3)]
    fn c38_symmetric_len1() { symmetric::<1>(); }
}
verif_proof! { [C38]
    #[kani::unwind(4)]
    fn c38_symmetric_len2() { symmetric::<2>(); }
}

verif_proof! { [C38]
    #[kani::unwind(3)]
    fn c38_empty_vectors() {
        let e: [f32; 0] = [];
        assert!(l2_distance_simd(&e, &e) == 0.0, "[C38] distance of empty vectors is not zero");
        assert!(l2_distance_squared_simd(&e, &e) == 0.0, "[C38] squared distance of empty vectors is not zero");
        kani::cover!(true, "reached");
    }
}

// Definition check on the exactness domain: integer components |x| <= 1024
// make every product and partial sum exact in f32, so any order of summation
// must give exactly the integer sum of squares.
fn exact_domain<const N: usize>() {
    let ai: [i16; N] = kani::any();
    let bi: [i16; N] = kani::any();
    let mut a = [0.0f32; N];
    let mut b = [0.0f32; N];
    let mut i = 0;
    while i < N {
        kani::assume(ai[i] >= -1024 && ai[i] <= 1024 && bi[i] >= -1024 && bi[i] <= 1024);
        a[i] = ai[i] as f32;
        b[i] = bi[i] as f32;
        i += 1;
    }
    let got = l2_distance_squared_simd(&a, &b);
    let mut want: i64 = 0;
    let mut j = N;
    while j > 0 {
        j -= 1;
        let d = (ai[j] as i64) - (bi[j] as i64);
        want += d * d;
    }
    assert!(got == want as f32, "[C38] distance differs from the exact integer sum of squares");
    kani::cover!(want > 100, "non-trivial distance");
}
verif_proof! { [C38]
    #[kani::unwind(4)]
    fn c38_exact_domain_len2() { exact_domain::<2>(); }
}
