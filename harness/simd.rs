// Harnesses for src/simd.rs (built with --no-default-features: the scalar
// definition; the `wide` SIMD build lowers to x86 intrinsics Kani cannot model).
// Each harness carries ONE float obligation: equivalence queries over several
// bit-blasted f32 multipliers/adders at once did not finish in 7 minutes.
#![allow(unused_imports, clippy::all, clippy::pedantic)]
use super::*;
use crate::verif_env::*;

#[path = "/verif/harness/playback/simd.rs"]
mod playback;

fn finite(x: f32) -> bool {
    !x.is_nan() && !x.is_infinite()
}
fn any_finite<const N: usize>() -> [f32; N] {
    let a: [f32; N] = kani::any();
    let mut i = 0;
    while i < N {
        kani::assume(finite(a[i]));
        i += 1;
    }
    a
}

fn zero_on_equal<const N: usize>() {
    let a = any_finite::<N>();
    let aa = l2_distance_squared_simd(&a, &a);
    assert!(aa == 0.0, "[C38] distance of a vector to itself is not zero");
    assert!(l2_distance_simd(&a, &a) == 0.0, "[C38] L2 distance of a vector to itself is not zero");
    kani::cover!(N == 0 || a[0] != 0.0, "non-zero vector");
}
verif_proof! { [C38]
    #[kani::unwind(6)]
    fn c38_zero_on_equal_len4() { zero_on_equal::<4>(); }
}
verif_proof! { [C38]
    #[kani::unwind(11)]
    fn c38_zero_on_equal_len9() { zero_on_equal::<9>(); }
}

fn non_negative<const N: usize>() {
    let a = any_finite::<N>();
    let b = any_finite::<N>();
    let ab = l2_distance_squared_simd(&a, &b);
    assert!(ab.is_nan() || ab >= 0.0, "[C38] squared L2 distance is negative");
    kani::cover!(ab > 0.0, "distinct vectors");
}
verif_proof! { [C38]
    #[kani::unwind(4)]
    fn c38_non_negative_len2() { non_negative::<2>(); }
}

fn symmetric<const N: usize>() {
    let a = any_finite::<N>();
    let b = any_finite::<N>();
    let ab = l2_distance_squared_simd(&a, &b);
    let ba = l2_distance_squared_simd(&b, &a);
    assert!(ab.to_bits() == ba.to_bits() || (ab.is_nan() && ba.is_nan()), "[C38] squared L2 distance is not symmetric");
    kani::cover!(ab > 0.0, "distinct vectors");
}
verif_proof! { [C38]
    #[kani::unwind(3)]
    fn c38_symmetric_len1() { symmetric::<1>(); }
}
verif_proof! { [C38]
    #[kani::unwind(4)]
    fn c38_symmetric_len2() { symmetric::<2>(); }
}

verif_proof! { [C38]
    #[kani::unwind(3)]
    fn c38_empty_vectors() {
        let e: [f32; 0] = [];
        assert!(l2_distance_simd(&e, &e) == 0.0, "[C38] distance of empty vectors is not zero");
        assert!(l2_distance_squared_simd(&e, &e) == 0.0, "[C38] squared distance of empty vectors is not zero");
        kani::cover!(true, "reached");
    }
}

// Definition check on the exactness domain: integer components |x| <= 1024
// make every product and partial sum exact in f32, so any order of summation
// must give exactly the integer sum of squares.
fn exact_domain<const N: usize>() {
    let ai: [i16; N] = kani::any();
    let bi: [i16; N] = kani::any();
    let mut a = [0.0f32; N];
    let mut b = [0.0f32; N];
    let mut i = 0;
    while i < N {
        kani::assume(ai[i] >= -1024 && ai[i] <= 1024 && bi[i] >= -1024 && bi[i] <= 1024);
        a[i] = ai[i] as f32;
        b[i] = bi[i] as f32;
        i += 1;
    }
    let got = l2_distance_squared_simd(&a, &b);
    let mut want: i64 = 0;
    let mut j = N;
    while j > 0 {
        j -= 1;
        let d = (ai[j] as i64) - (bi[j] as i64);
        want += d * d;
    }
    assert!(got == want as f32, "[C38] distance differs from the exact integer sum of squares");
    kani::cover!(want > 100, "non-trivial distance");
}
verif_proof! { [C38]
    #[kani::unwind(4)]
    fn c38_exact_domain_len2() { exact_domain::<2>(); }
}

// Two-hot definition check (any summation order gives the same exact result): the vectors are
// equal (zero) except at two symbolic positions k1 != k2, where they differ by small integers
// v1, v2. Every product and partial sum is exact in f32, so the squared distance must be exactly
// v1^2 + v2^2: an element that is dropped, counted twice or paired with the wrong partner shows up.
// Lengths are chosen on both sides of the 8-lane boundary and with every kind of remainder.
fn two_hot<const N: usize>() {
    let k1: usize = kani::any();
    let k2: usize = kani::any();
    kani::assume(k1 < N && k2 < N && k1 != k2);
    let v1: i8 = kani::any();
    let v2: i8 = kani::any();
    kani::assume(v1 >= -8 && v1 <= 8 && v2 >= -8 && v2 <= 8);
    let a = [0.0f32; N];
    let mut b = [0.0f32; N];
    b[k1] = f32::from(v1);
    b[k2] = f32::from(v2);
    let want = f32::from(i16::from(v1) * i16::from(v1) + i16::from(v2) * i16::from(v2));
    let got = l2_distance_squared_simd(&a, &b);
    assert!(got == want, "[C38] squared L2 distance differs from the definition on a two-hot pair (an element is dropped, repeated or mispaired)");
    let back = l2_distance_squared_simd(&b, &a);
    assert!(back == want, "[C38] squared L2 distance is not symmetric on a two-hot pair");
    kani::cover!(want == 128.0, "both components at the extreme");
}
verif_proof! { [C38]
    #[kani::unwind(11)]
    fn c38_two_hot_len9() { two_hot::<9>(); }
}
verif_proof! { [C38]
    #[kani::unwind(9)]
    fn c38_two_hot_len7() { two_hot::<7>(); }
}
verif_proof! { [C38]
    #[kani::unwind(18)]
    fn c38_two_hot_len16() { two_hot::<16>(); }
}
verif_proof! { [C38]
    #[kani::unwind(25)]
    fn c38_two_hot_len23() { two_hot::<23>(); }
}

// Models of the three SSE intrinsics the `wide` crate lowers f32x8 arithmetic to on this target
// (two 4-lane halves): IEEE lane-wise operations, which is their architectural definition.
// Needed because Kani attaches an integer-overflow check to float `simd_sub/add/mul`.
#[cfg(all(kani, feature = "simd"))]
mod sse_model {
    use core::arch::x86_64::__m128;
    fn lanes(v: __m128) -> [f32; 4] { unsafe { core::mem::transmute(v) } }
    fn pack(l: [f32; 4]) -> __m128 { unsafe { core::mem::transmute(l) } }
    pub(crate) fn sub_ps(a: __m128, b: __m128) -> __m128 { let (x, y) = (lanes(a), lanes(b)); pack([x[0] - y[0], x[1] - y[1], x[2] - y[2], x[3] - y[3]]) }
    pub(crate) fn add_ps(a: __m128, b: __m128) -> __m128 { let (x, y) = (lanes(a), lanes(b)); pack([x[0] + y[0], x[1] + y[1], x[2] + y[2], x[3] + y[3]]) }
    pub(crate) fn mul_ps(a: __m128, b: __m128) -> __m128 { let (x, y) = (lanes(a), lanes(b)); pack([x[0] * y[0], x[1] * y[1], x[2] * y[2], x[3] * y[3]]) }
}
#[cfg(all(kani, feature = "simd"))]
kani::stub_set!(pub(crate) sse_stubs,
    stub(core::arch::x86_64::_mm_sub_ps, crate::simd::verif_simd::sse_model::sub_ps),
    stub(core::arch::x86_64::_mm_add_ps, crate::simd::verif_simd::sse_model::add_ps),
    stub(core::arch::x86_64::_mm_mul_ps, crate::simd::verif_simd::sse_model::mul_ps),
);
#[cfg(all(kani, feature = "simd"))]
verif_proof! { [C38]
    #[kani::unwind(9)]
    #[kani::use_stub_set(crate::simd::verif_simd::sse_stubs)]
    fn c38_simd_two_hot_len7() { two_hot::<7>(); }
}
#[cfg(all(kani, feature = "simd"))]
verif_proof! { [C38]
    #[kani::unwind(11)]
    #[kani::use_stub_set(crate::simd::verif_simd::sse_stubs)]
    fn c38_simd_two_hot_len9() { two_hot::<9>(); }
}
#[cfg(all(kani, feature = "simd"))]
verif_proof! { [C38]
    #[kani::unwind(18)]
    #[kani::use_stub_set(crate::simd::verif_simd::sse_stubs)]
    fn c38_simd_two_hot_len16() { two_hot::<16>(); }
}
#[cfg(all(kani, feature = "simd"))]
verif_proof! { [C38]
    #[kani::unwind(25)]
    #[kani::use_stub_set(crate::simd::verif_simd::sse_stubs)]
    fn c38_simd_two_hot_len23() { two_hot::<23>(); }
}
#[cfg(all(kani, feature = "simd"))]
verif_proof! { [C38]
    #[kani::unwind(11)]
    #[kani::use_stub_set(crate::simd::verif_simd::sse_stubs)]
    fn c38_simd_zero_on_equal_len4() { zero_on_equal::<4>(); }
}
#[cfg(all(kani, feature = "simd"))]
verif_proof! { [C38]
    #[kani::unwind(11)]
    #[kani::use_stub_set(crate::simd::verif_simd::sse_stubs)]
    fn c38_simd_zero_on_equal_len9() { zero_on_equal::<9>(); }
}
#[cfg(all(kani, feature = "simd"))]
verif_proof! { [C38]
    #[kani::unwind(11)]
    #[kani::use_stub_set(crate::simd::verif_simd::sse_stubs)]
    fn c38_simd_non_negative_len2() { non_negative::<2>(); }
}
#[cfg(all(kani, feature = "simd"))]
verif_proof! { [C38]
    #[kani::unwind(10)]
    #[kani::use_stub_set(crate::simd::verif_simd::sse_stubs)]
    fn c38_simd_non_negative_len8() { non_negative::<8>(); }
}

#[cfg(all(kani, feature = "simd"))]
verif_proof! { [C38]
    #[kani::unwind(33)]
    #[kani::use_stub_set(crate::simd::verif_simd::sse_stubs)]
    fn c38_simd_two_hot_len31() { two_hot::<31>(); }
}
#[cfg(all(kani, feature = "simd"))]
verif_proof! { [C38]
    #[kani::unwind(42)]
    #[kani::use_stub_set(crate::simd::verif_simd::sse_stubs)]
    fn c38_simd_two_hot_len40() { two_hot::<40>(); }
}
