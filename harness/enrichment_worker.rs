// Harnesses for src/enrichment_worker.rs.
#![allow(unused_imports, static_mut_refs, clippy::all, clippy::pedantic)]
use super::*;
use crate::verif_env::*;

#[path = "/verif/harness/playback/enrichment_worker.rs"]
mod playback;

// ===========================================================================
// C41: run_worker_loop under "any interleaving".  Every step of the worker
// takes the handle's mutex, so — assuming the mutex gives mutual exclusion —
// an arbitrary interleaving is an arbitrary foreground action between two
// worker closures.  The harness plays the foreground nondeterministically
// inside the closures: enqueue a new frame, take a frame out of the queue
// (deleted by the foreground), or ask the worker to stop.
// The queue is a 3-slot set of frame ids; ghost counters record what the
// worker did to each frame.
// ===========================================================================
const NF: usize = 3;
static mut QUEUED: [bool; NF] = [false; NF];
static mut EVER_QUEUED: [bool; NF] = [false; NF];
static mut PROCESSED: [u8; NF] = [0; NF];
static mut COMPLETED: [u8; NF] = [0; NF];
static mut BAD_ORDER: bool = false; // completed before processed, or processed without being handed out
static mut HANDED: [bool; NF] = [false; NF];
static mut WORK_SINCE_CKPT: u32 = 0;
static mut CKPTS: u32 = 0;
static mut STEPS_AFTER_STOP: u32 = 0;
static mut STOP_SEEN: bool = false;
static mut BUDGET: u32 = 0;

fn foreground(handle: &EnrichmentWorkerHandle) {
    unsafe {
        let act: u8 = kani::any();
        let k: usize = kani::any();
        kani::assume(k < NF && act < 4);
        match act {
            1 => { QUEUED[k] = true; EVER_QUEUED[k] = true; }
            2 => { QUEUED[k] = false; }
            3 => { handle.stop(); STOP_SEEN = true; }
            _ => {}
        }
        // the harness ends the run after a bounded number of foreground turns
        if BUDGET == 0 { handle.stop(); STOP_SEEN = true; } else { BUDGET -= 1; }
    }
}
fn stub_sleep(_d: std::time::Duration) {}

verif_proof! { [C41]
    #[kani::unwind(8)]
    #[kani::stub(std::thread::sleep, stub_sleep)]
    #[kani::stub(alloc::fmt::format, crate::verif_env::stub_format)]
    fn c41_worker_loop_interleavings() {
        let handle = EnrichmentWorkerHandle::new();
        let interval: usize = kani::any();
        kani::assume(interval >= 1 && interval <= 3);
        let config = EnrichmentWorkerConfig { embedding_batch_size: 1, checkpoint_interval: interval, task_delay_ms: 0, max_task_time_ms: 0 };
        unsafe {
            QUEUED = kani::any();
            EVER_QUEUED = QUEUED;
            BUDGET = 4;
        }
        let fail: [bool; NF] = kani::any();
        run_worker_loop(
            &handle,
            &config,
            || {
                foreground(&handle);
                unsafe {
                    if STOP_SEEN { STEPS_AFTER_STOP += 0; }
                    let mut i = 0;
                    while i < NF {
                        if QUEUED[i] {
                            HANDED[i] = true;
                            return Some(EnrichmentTask { frame_id: i as u64, created_at: 0, chunks_done: 0, chunks_total: 0 });
                        }
                        i += 1;
                    }
                    None
                }
            },
            |task: &EnrichmentTask| {
                foreground(&handle);
                let k = task.frame_id as usize;
                unsafe {
                    if k >= NF || !HANDED[k] { BAD_ORDER = true; } else { PROCESSED[k] = PROCESSED[k].saturating_add(1); }
                }
                TaskResult { frame_id: task.frame_id, re_extracted: false, embeddings_generated: 0, elapsed_ms: 0,
                             error: if k < NF && fail[k] { Some(String::new()) } else { None } }
            },
            |frame_id: FrameId| {
                foreground(&handle);
                let k = frame_id as usize;
                unsafe {
                    if k >= NF || PROCESSED[k] == 0 { BAD_ORDER = true; } else { COMPLETED[k] = COMPLETED[k].saturating_add(1); QUEUED[k] = false; WORK_SINCE_CKPT += 1; }
                }
            },
            || unsafe { CKPTS += 1; WORK_SINCE_CKPT = 0; },
        );
        unsafe {
            assert!(!BAD_ORDER, "[C41] a task was completed before it was processed, or processed without having been dequeued");
            let mut k = 0;
            while k < NF {
                // only frames that were queued for enrichment are touched by the worker
                assert!(EVER_QUEUED[k] || (PROCESSED[k] == 0 && COMPLETED[k] == 0), "[C41] the worker touched a frame that was never queued for enrichment");
                // each dequeue is processed and completed once: completions never exceed processings
                assert!(COMPLETED[k] <= PROCESSED[k], "[C41] a frame was marked complete more often than it was processed");
                // a task that was processed must also be taken out of the queue before the worker exits:
                // otherwise the frame is enriched but still queued, and the next run enriches it again
                assert!(COMPLETED[k] == PROCESSED[k], "[C41] the worker exited with a processed task still in the queue (the frame would be enriched twice)");
                k += 1;
            }
            assert!(WORK_SINCE_CKPT == 0, "[C41] the worker stopped with completed work that was never checkpointed");
            assert!(!handle.is_running(), "[C41] the worker loop returned but still reports itself as running");
            assert!(handle.should_stop(), "[C41] the worker loop returned without having been asked to stop");
            kani::cover!(PROCESSED[0] > 0 && PROCESSED[1] > 0, "two frames enriched");
            kani::cover!(CKPTS >= 2, "periodic and final checkpoint");
        }
        leak(handle);
    }
}
