// harnesses for src/enrichment_worker.rs (child module: sees private items of its parent)
