// Harnesses for src/types/adaptive.rs (child module of memvid_core::types::adaptive).
#![allow(unused_imports, clippy::all, clippy::pedantic)]
use super::*;
use crate::verif_env::*;

#[path = "/verif/harness/playback/adaptive.rs"]
mod playback;

fn finite(x: f32) -> bool {
    !x.is_nan() && !x.is_infinite()
}

fn any_finite<const N: usize>() -> [f32; N] {
    let s: [f32; N] = kani::any();
    let mut i = 0;
    while i < N {
        kani::assume(finite(s[i]));
        i += 1;
    }
    s
}

// C37 (2): normalized scores lie in [0,1] and the maximum is mapped to 1.
fn normalized_in_unit_interval<const N: usize>(limit: f32) {
    let s = any_finite::<N>();
    let mut i = 0;
    while i < N {
        kani::assume(s[i] >= -limit && s[i] <= limit);
        i += 1;
    }
    let out = normalize_scores(&s);
    assert!(out.len() == N, "[C37] normalize_scores changed the number of scores");
    let mut imax = 0;
    let mut i = 1;
    while i < N {
        if s[i] > s[imax] {
            imax = i;
        }
        i += 1;
    }
    let mut i = 0;
    while i < N {
        assert!(out[i] >= 0.0 && out[i] <= 1.0, "[C37] a normalized score lies outside [0, 1]");
        i += 1;
    }
    assert!(out[imax] == 1.0, "[C37] the maximum score is not normalized to 1");
    kani::cover!(s[0] != s[1], "distinct scores");
    leak(out);
}

verif_proof! { [C37]
    #[kani::unwind(4)]
    fn c37_normalize_2_moderate() { normalized_in_unit_interval::<2>(1.0e30); }
}
verif_proof! { [C37]
    #[kani::unwind(4)]
    fn c37_normalize_2_extreme() { normalized_in_unit_interval::<2>(f32::MAX); }
}
verif_proof! { [C37]
    #[kani::unwind(5)]
    fn c37_normalize_3_moderate() { normalized_in_unit_interval::<3>(1.0e30); }
}

fn bounds_ok(cut: usize, n: usize, min_results: usize) -> bool {
    cut >= core::cmp::min(min_results, n) && cut <= n
}

// C37 (1)+(3): absolute threshold on raw scores.
verif_proof! { [C37]
    #[kani::unwind(6)]
    #[kani::stub(alloc::fmt::format, crate::verif_env::stub_format)]
    fn c37_absolute_cutoff_4() {
        let s = any_finite::<4>();
        let n: usize = kani::any();
        kani::assume(n <= 4);
        let thr: f32 = kani::any();
        let min_results: usize = kani::any();
        let r = find_absolute_cutoff(&s[..n], thr, min_results);
        let cut = r.0;
        assert!(bounds_ok(cut, n, min_results), "[C37] cut-off outside [min(min_results, n), n]");
        let mut i = 0;
        while i < cut {
            if i >= min_results {
                assert!(!(s[i] < thr), "[C37] a result kept beyond min_results is below the threshold");
            }
            i += 1;
        }
        if cut < n {
            assert!(s[cut] < thr, "[C37] the result just after the cut-off is not below the threshold");
        }
        kani::cover!(cut > 0 && cut < n, "cut inside the list");
        leak(r);
    }
}

// the same obligation over longer lists (thorough tier)
fn absolute_cutoff<const N: usize>() {
    let s = any_finite::<N>();
    let n: usize = kani::any();
    kani::assume(n <= N);
    let thr: f32 = kani::any();
    let min_results: usize = kani::any();
    let r = find_absolute_cutoff(&s[..n], thr, min_results);
    let cut = r.0;
    assert!(bounds_ok(cut, n, min_results), "[C37] cut-off outside [min(min_results, n), n]");
    let mut i = 0;
    while i < cut {
        if i >= min_results {
            assert!(!(s[i] < thr), "[C37] a result kept beyond min_results is below the threshold");
        }
        i += 1;
    }
    if cut < n {
        assert!(s[cut] < thr, "[C37] the result just after the cut-off is not below the threshold");
    }
    kani::cover!(cut > 0 && cut < n, "cut inside the list");
    leak(r);
}
verif_proof! { [C37]
    #[kani::unwind(8)]
    #[kani::stub(alloc::fmt::format, crate::verif_env::stub_format)]
    fn c37_absolute_cutoff_6() { absolute_cutoff::<6>(); }
}
verif_proof! { [C37]
    #[kani::unwind(10)]
    #[kani::stub(alloc::fmt::format, crate::verif_env::stub_format)]
    fn c37_absolute_cutoff_8() { absolute_cutoff::<8>(); }
}

// dispatcher, normalisation off: every strategy, cut-off bounds; for the
// absolute/relative strategies also the threshold property.
verif_proof! { [C37]
    #[kani::unwind(6)]
    #[kani::stub(alloc::fmt::format, crate::verif_env::stub_format)]
    fn c37_dispatch_raw_3() { dispatch_raw::<3>(0, 1); }
}
verif_proof! { [C37]
    #[kani::unwind(5)]
    #[kani::stub(alloc::fmt::format, crate::verif_env::stub_format)]
    fn c37_dispatch_relative_2() { dispatch_raw::<2>(1, 1); }
}
verif_proof! { [C37]
    #[kani::unwind(5)]
    #[kani::stub(alloc::fmt::format, crate::verif_env::stub_format)]
    fn c37_dispatch_absolute_2() { dispatch_raw::<2>(0, 0); }
}
// strategies with a float division (cliff, combined): one division per pair of scores
verif_proof! { [C37]
    #[kani::unwind(5)]
    #[kani::stub(alloc::fmt::format, crate::verif_env::stub_format)]
    fn c37_dispatch_cliff_2() { dispatch_raw::<2>(2, 2); }
}
verif_proof! { [C37]
    #[kani::unwind(5)]
    #[kani::stub(alloc::fmt::format, crate::verif_env::stub_format)]
    fn c37_dispatch_combined_2() { dispatch_raw::<2>(3, 3); }
}
fn dispatch_raw<const N: usize>(lo: u8, hi: u8) {
    {
        let s = any_finite::<N>();
        let n: usize = kani::any();
        kani::assume(n <= N);
        let which: u8 = kani::any();
        kani::assume(which >= lo && which <= hi);
        let p1: f32 = kani::any();
        let p2: f32 = kani::any();
        let p3: f32 = kani::any();
        let strategy = match which {
            0 => CutoffStrategy::AbsoluteThreshold { min_score: p1 },
            1 => CutoffStrategy::RelativeThreshold { min_ratio: p1 },
            2 => CutoffStrategy::ScoreCliff { max_drop_ratio: p1 },
            _ => CutoffStrategy::Combined { relative_threshold: p1, max_drop_ratio: p2, absolute_min: p3 },
        };
        let cfg = AdaptiveConfig { enabled: true, max_results: 100, min_results: kani::any(), strategy, normalize_scores: false };
        let r = find_adaptive_cutoff(&s[..n], &cfg);
        let cut = r.0;
        assert!(bounds_ok(cut, n, cfg.min_results), "[C37] cut-off outside [min(min_results, n), n]");
        if n > cfg.min_results && which <= 1 && !p1.is_nan() {
            let thr = if which == 0 { p1 } else { s[0] * p1 };
            let mut i = 0;
            while i < cut {
                if i >= cfg.min_results {
                    assert!(!(s[i] < thr), "[C37] a result kept beyond min_results is below the threshold");
                }
                i += 1;
            }
            if cut < n {
                assert!(s[cut] < thr, "[C37] the result just after the cut-off is not below the threshold");
            }
        }
        kani::cover!(cut < n, "a cut inside the list");
        leak(r);
        leak(cfg);
    }
}

// elbow strategy: bounds only (thorough: float sqrt/div heavy)
verif_proof! { [C37]
    #[kani::unwind(6)]
    #[kani::stub(alloc::fmt::format, crate::verif_env::stub_format)]
    fn c37_elbow_bounds_3() {
        let s = any_finite::<3>();
        let mut i = 0;
        while i < 3 {
            kani::assume(s[i] >= -1.0e6 && s[i] <= 1.0e6);
            i += 1;
        }
        let sens: f32 = kani::any();
        kani::assume(finite(sens) && sens >= 0.0 && sens <= 100.0);
        let min_results: usize = kani::any();
        kani::assume(min_results < 3);
        let r = find_elbow_cutoff(&s, sens, min_results);
        assert!(bounds_ok(r.0, 3, min_results), "[C37] elbow cut-off outside [min(min_results, n), n]");
        kani::cover!(r.0 < 3, "elbow found");
        leak(r);
    }
}
