// Harnesses for src/io/time_index.rs.
#![allow(unused_imports, clippy::all, clippy::pedantic)]
use super::*;
use crate::verif_env::*;

#[path = "/verif/harness/playback/time_index.rs"]
mod playback;

fn le(a: &TimeIndexEntry, b: &TimeIndexEntry) -> bool {
    a.timestamp < b.timestamp || (a.timestamp == b.timestamp && a.frame_id <= b.frame_id)
}

// C15/C30: a track written by append_track reads back as the same entries,
// sorted by (timestamp, frame id); the checksum equals calculate_checksum.
fn roundtrip<const N: usize>() {
    let mut entries: [TimeIndexEntry; N] = [TimeIndexEntry::new(0, 0); N];
    let mut orig: [TimeIndexEntry; N] = [TimeIndexEntry::new(0, 0); N];
    let mut i = 0;
    while i < N {
        entries[i] = TimeIndexEntry::new(kani::any(), kani::any());
        orig[i] = entries[i];
        i += 1;
    }
    let mut disk = MemDisk::new();
    let r = append_track(&mut disk, &mut entries);
    let (offset, length, checksum) = match &r {
        Ok(t) => *t,
        Err(_) => { assert!(false, "[C30] append_track failed"); return; }
    };
    assert!(offset == 0 && length == 12 + 16 * N as u64 && disk.len as u64 == length, "[C30] time index track has the wrong length");
    let back = read_track(&mut disk, offset, length);
    match &back {
        Ok(v) => {
            assert!(v.len() == N, "[C30] time index read back a different number of entries");
            let mut j = 0;
            while j < N {
                assert!(v[j] == entries[j], "[C30] time index entry differs after the round trip");
                if j > 0 {
                    assert!(le(&v[j - 1], &v[j]), "[C15] time index entries are not ordered by (timestamp, frame id)");
                }
                // every original entry is present
                let mut found = false;
                let mut k = 0;
                while k < N {
                    if v[k] == orig[j] { found = true; }
                    k += 1;
                }
                assert!(found, "[C15] an entry is missing from the written time index");
                j += 1;
            }
            kani::cover!(N == 1 || orig[0] != entries[0], "input was not already sorted");
        }
        Err(_) => assert!(false, "[C30] read_track rejected a track written by append_track"),
    }
    let again = calculate_checksum(&orig);
    assert!(again == checksum, "[C30] calculate_checksum disagrees with the checksum append_track returned");
    leak(back);
    leak(r);
}

verif_proof! { [C15 C30 C28]
    #[kani::unwind(6)]
    #[kani::use_stub_set(crate::verif_env::hasher_stubs)]
    fn c15_time_index_roundtrip_3() { roundtrip::<3>(); }
}
verif_proof! { [C15 C30]
    #[kani::unwind(4)]
    #[kani::use_stub_set(crate::verif_env::hasher_stubs)]
    fn c15_time_index_roundtrip_1() { roundtrip::<1>(); }
}

// C30/C22: read_track on arbitrary track bytes and an arbitrary declared length: no panic; Ok only
// for a well-formed, sorted track whose declared length matches.  The declared entry COUNT is
// concrete per instance (a symbolic count is a symbolic allocation size); magic, entries, file
// length and declared length are symbolic.
fn arbitrary_track(count: u64, flen: usize) {
    let mut img: [u8; MEM_MAX] = kani::any();
    let cb = count.to_le_bytes();
    unrolled_128!(8usize, i => { img[4 + i] = cb[i]; });
    // (file length concrete per instance: a symbolic length makes every read a symbolic-size copy)
    let mut disk = MemDisk::with(img, flen);
    let length: u64 = kani::any();
    let r = read_track(&mut disk, 0, length);
    match &r {
        Ok(v) => {
            assert!(img[0] == b'M' && img[1] == b'V' && img[2] == b'T' && img[3] == b'I', "[C30] read_track accepted a wrong magic");
            assert!(v.len() as u64 == count, "[C30] read_track returned a different number of entries than declared");
            assert!(length == 12 + 16 * count, "[C30] read_track accepted a length inconsistent with the entry count");
            assert!(length as usize <= flen, "[C30] read_track returned entries beyond the end of the data");
            let mut j = 1;
            while j < v.len() {
                assert!(le(&v[j - 1], &v[j]), "[C30] read_track accepted unsorted entries");
                j += 1;
            }
        }
        Err(_) => {}
    }
    kani::cover!(r.is_err(), "rejected");
    kani::cover!(r.is_ok() || flen as u64 != 12 + 16 * count, "a complete track accepted (or the file is truncated)");
    leak(r);
}
verif_proof! { [C30 C22 C20]
    #[kani::unwind(4)]
    fn c30_time_index_arbitrary_0() { arbitrary_track(0, 12); }
}
verif_proof! { [C30 C22 C20]
    #[kani::unwind(4)]
    fn c30_time_index_arbitrary_1() { arbitrary_track(1, 28); }
}
verif_proof! { [C30 C22 C20]
    #[kani::unwind(5)]
    fn c30_time_index_arbitrary_2() { arbitrary_track(2, 44); }
}
verif_proof! { [C30 C22 C20]
    #[kani::unwind(5)]
    fn c30_time_index_truncated_2() { arbitrary_track(2, 43); }
}

// C22: the declared length and count come from the file: no panic for ANY length.
verif_proof! { [C22]
    #[kani::unwind(3)]
    fn c22_time_index_any_length() {
        let mut img = [0u8; MEM_MAX];
        img[0] = b'M'; img[1] = b'V'; img[2] = b'T'; img[3] = b'I';
        let count: u64 = kani::any();
        let cb = count.to_le_bytes();
        unrolled_128!(8usize, i => { img[4 + i] = cb[i]; });
        let mut disk = MemDisk::with(img, 12);
        let length: u64 = kani::any();
        let r = read_track(&mut disk, 0, length);
        assert!(r.is_err() || count == 0, "[C22] read_track returned entries from a 12-byte file");
        kani::cover!(r.is_err(), "rejected");
        leak(r);
    }
}

verif_proof! { [C30 C22 C20]
    #[kani::unwind(6)]
    fn c30_time_index_arbitrary_3() { arbitrary_track(3, 60); }
}
