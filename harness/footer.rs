// Harnesses for src/footer.rs.
#![allow(unused_imports, clippy::all, clippy::pedantic)]
use super::*;
use crate::verif_env::*;

#[path = "/verif/harness/playback/footer.rs"]
mod playback;

verif_proof! { [C30]
    #[kani::unwind(34)]
    fn c30_footer_encode_decode() {
        let f = CommitFooter { toc_len: kani::any(), toc_hash: kani::any(), generation: kani::any() };
        let bytes = f.encode();
        let g = CommitFooter::decode(&bytes);
        match &g {
            Some(g) => {
                assert!(g.toc_len == f.toc_len && g.generation == f.generation, "[C30] footer decode(encode(f)) != f");
                let mut i = 0;
                while i < 32 {
                    assert!(g.toc_hash[i] == f.toc_hash[i], "[C30] footer hash changed in the round trip");
                    i += 1;
                }
            }
            None => assert!(false, "[C30] footer decode rejected an encoded footer"),
        }
        kani::cover!(g.is_some(), "reached");
    }
}

verif_proof! { [C30 C22]
    #[kani::unwind(58)]
    fn c30_footer_decode_arbitrary() {
        let bytes: [u8; FOOTER_SIZE + 1] = kani::any();
        let len: usize = kani::any();
        kani::assume(len <= FOOTER_SIZE + 1);
        let g = CommitFooter::decode(&bytes[..len]);
        match &g {
            Some(g) => {
                assert!(len == FOOTER_SIZE, "[C30] footer decode accepted a wrong length");
                let magic = *FOOTER_MAGIC;
                let mut i = 0;
                while i < 8 {
                    assert!(bytes[i] == magic[i], "[C30] footer decode accepted a wrong magic");
                    i += 1;
                }
                let re = g.encode();
                let mut j = 0;
                while j < FOOTER_SIZE {
                    assert!(re[j] == bytes[j], "[C30] footer encode(decode(img)) != img");
                    j += 1;
                }
            }
            None => {}
        }
        kani::cover!(g.is_some(), "accepted");
        kani::cover!(g.is_none() && len == FOOTER_SIZE, "rejected at full length");
    }
}
