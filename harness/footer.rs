// Harnesses for src/footer.rs.
#![allow(unused_imports, clippy::all, clippy::pedantic)]
use super::*;
use crate::verif_env::*;

#[path = "/verif/harness/playback/footer.rs"]
mod playback;

verif_proof! { [C30]
    #[kani::unwind(34)]
    fn c30_footer_encode_decode() {
        let f = CommitFooter { toc_len: kani::any(), toc_hash: kani::any(), generation: kani::any() };
        let bytes = f.encode();
        let g = CommitFooter::decode(&bytes);
        match &g {
            Some(g) => {
                assert!(g.toc_len == f.toc_len && g.generation == f.generation, "[C30] footer decode(encode(f)) != f");
                let mut i = 0;
                while i < 32 {
                    assert!(g.toc_hash[i] == f.toc_hash[i], "[C30] footer hash changed in the round trip");
                    i += 1;
                }
            }
            None => assert!(false, "[C30] footer decode rejected an encoded footer"),
        }
        kani::cover!(g.is_some(), "reached");
    }
}

verif_proof! { [C30 C22]
    #[kani::unwind(58)]
    fn c30_footer_decode_arbitrary() {
        let bytes: [u8; FOOTER_SIZE + 1] = kani::any();
        let len: usize = kani::any();
        kani::assume(len <= FOOTER_SIZE + 1);
        let g = CommitFooter::decode(&bytes[..len]);
        match &g {
            Some(g) => {
                assert!(len == FOOTER_SIZE, "[C30] footer decode accepted a wrong length");
                let magic = *FOOTER_MAGIC;
                let mut i = 0;
                while i < 8 {
                    assert!(bytes[i] == magic[i], "[C30] footer decode accepted a wrong magic");
                    i += 1;
                }
                let re = g.encode();
                let mut j = 0;
                while j < FOOTER_SIZE {
                    assert!(re[j] == bytes[j], "[C30] footer encode(decode(img)) != img");
                    j += 1;
                }
            }
            None => {}
        }
        kani::cover!(g.is_some(), "accepted");
        kani::cover!(g.is_none() && len == FOOTER_SIZE, "rejected at full length");
    }
}

// ===========================================================================
// C31: the backward footer scan against a naive reference scan.
// memrchr is replaced by its functional specification (the real one dispatches
// through a cpuid-selected function pointer that Kani cannot model) and the
// TOC hash by the weak hash (any deterministic function).
// ===========================================================================
fn spec_memrchr(needle: u8, hay: &[u8]) -> Option<usize> {
    let mut i = hay.len();
    while i > 0 {
        i -= 1;
        if hay[i] == needle {
            return Some(i);
        }
    }
    None
}
fn weak_matches(f: &CommitFooter, toc: &[u8]) -> bool {
    let w = weak_hash(toc);
    let mut same = true;
    let mut i = 0;
    while i < 32 {
        if w[i] != f.toc_hash[i] { same = false; }
        i += 1;
    }
    same
}
/// naive reference: highest offset p such that bytes[p..p+56] decodes to a
/// footer whose toc_len is in 1..=p and whose hash matches the toc_len bytes before p
fn reference_scan(bytes: &[u8]) -> Option<usize> {
    if bytes.len() < FOOTER_SIZE {
        return None;
    }
    let mut p = bytes.len() - FOOTER_SIZE + 1;
    while p > 0 {
        p -= 1;
        if let Some(f) = CommitFooter::decode(&bytes[p..p + FOOTER_SIZE]) {
            if f.toc_len >= 1 && f.toc_len <= p as u64 {
                let toc = &bytes[p - f.toc_len as usize..p];
                if weak_matches(&f, toc) {
                    return Some(p);
                }
            }
        }
    }
    None
}

fn footer_scan<const N: usize>() {
    let buf: [u8; N] = kani::any();
    let got = find_last_valid_footer(&buf);
    let want = reference_scan(&buf);
    match (&got, want) {
        (Some(s), Some(p)) => {
            assert!(s.footer_offset == p, "[C31] footer scan did not return the valid footer ending at the highest offset");
            assert!(s.toc_offset + s.toc_bytes.len() == s.footer_offset && s.footer.toc_len as usize == s.toc_bytes.len(), "[C31] returned TOC bytes are not the bytes the footer describes");
            kani::cover!(true, "a valid footer found");
        }
        (None, None) => {}
        (Some(_), None) => assert!(false, "[C31] footer scan returned a footer that is not valid (magic, length or hash inconsistent)"),
        (None, Some(_)) => assert!(false, "[C31] footer scan missed a valid footer"),
    }
    leak(got);
}
verif_proof! { [C31 C20 C22]
    #[kani::unwind(60)]
    #[kani::stub(memchr::memrchr, spec_memrchr)]
    #[kani::stub(CommitFooter::hash_matches, weak_matches)]
    fn c31_footer_scan_60() { footer_scan::<60>(); }
}
