// harnesses for src/memvid/sketch.rs (child module: sees private items of its parent)
