// Harnesses for src/vec.rs (child module of memvid_core::vec).
#![allow(unused_imports, static_mut_refs, clippy::all, clippy::pedantic)]
use super::*;
use crate::verif_env::*;

#[path = "/verif/harness/playback/vec.rs"]
mod playback;

// "any distance function": document i (embedding [i as f32]) is at an arbitrary
// non-NaN distance DIST[i] from the query.  The arithmetic itself is C38.
static mut DIST: [f32; 8] = [0.0; 8];
fn stub_l2(_a: &[f32], b: &[f32]) -> f32 {
    unsafe { DIST[b[0] as usize] }
}

fn topk<const M: usize>(kmax: usize) {
    let mut d = [0.0f32; 8];
    let mut i = 0;
    while i < M {
        d[i] = kani::any();
        kani::assume(!d[i].is_nan());
        i += 1;
    }
    if symbolic() {
        unsafe { DIST = d; }
    }
    let mut docs = Vec::new();
    let mut i = 0;
    while i < M {
        // playback (real distance): embedding chosen so that |emb - 0| = d when d >= 0
        let e = if symbolic() { i as f32 } else { d[i] };
        docs.push(VecDocument { frame_id: 10 + i as u64, embedding: vec![e] });
        i += 1;
    }
    if !symbolic() {
        // native replay uses the real distance |e - 0|; only non-negative finite distances are representable
        let mut i = 0;
        while i < M {
            if !(d[i] >= 0.0) || d[i].is_infinite() {
                return;
            }
            i += 1;
        }
    }
    let idx = VecIndex::Uncompressed { documents: docs };
    let k: usize = kani::any();
    kani::assume(k <= kmax);
    let q = [0.0f32];
    let hits = idx.search(&q, k);
    assert!(hits.len() == core::cmp::min(k, M), "[C13] search_vec does not return min(k, m) hits");
    let mut j = 1;
    while j < hits.len() {
        assert!(hits[j - 1].distance <= hits[j].distance, "[C13] hits are not ordered by non-decreasing distance");
        j += 1;
    }
    if let Some(last) = hits.last() {
        let mut m = 0;
        while m < M {
            let fid = 10 + m as u64;
            let mut present = false;
            let mut qi = 0;
            while qi < hits.len() {
                if hits[qi].frame_id == fid {
                    assert!(hits[qi].distance == d[m], "[C13] a hit carries a distance that is not its frame's distance");
                    present = true;
                }
                qi += 1;
            }
            if !present {
                assert!(!(d[m] < last.distance), "[C13] an omitted frame is strictly closer than the last hit");
            }
            m += 1;
        }
    }
    // no frame twice
    let mut a = 0;
    while a < hits.len() {
        let mut b = a + 1;
        while b < hits.len() {
            assert!(hits[a].frame_id != hits[b].frame_id, "[C13] a frame is returned twice");
            b += 1;
        }
        a += 1;
    }
    kani::cover!(hits.len() == M && M > 1, "all documents returned");
    kani::cover!(hits.len() + 1 == M, "one document omitted");
    leak(hits);
    leak(idx);
}

verif_proof! { [C13]
    #[kani::unwind(6)]
    #[kani::stub(crate::simd::l2_distance_simd, stub_l2)]
    fn c13_topk_3docs() { topk::<3>(4); }
}
verif_proof! { [C13]
    #[kani::unwind(7)]
    #[kani::stub(crate::simd::l2_distance_simd, stub_l2)]
    fn c13_topk_4docs() { topk::<4>(5); }
}
verif_proof! { [C13]
    #[kani::unwind(8)]
    #[kani::stub(crate::simd::l2_distance_simd, stub_l2)]
    fn c13_topk_5docs() { topk::<5>(6); }
}
verif_proof! { [C13]
    #[kani::unwind(9)]
    #[kani::stub(crate::simd::l2_distance_simd, stub_l2)]
    fn c13_topk_6docs() { topk::<6>(7); }
}

// empty query -> no hits (documented behaviour of the index; the dimension
// check of search_vec itself is in the memvid::search::api harness)
verif_proof! { [C13]
    #[kani::unwind(4)]
    fn c13_empty_query() {
        let docs = vec![VecDocument { frame_id: 1, embedding: vec![1.0] }];
        let idx = VecIndex::Uncompressed { documents: docs };
        let hits = idx.search(&[], 3);
        assert!(hits.is_empty(), "[C13] empty query returned hits");
        kani::cover!(true, "reached");
        leak(hits);
        leak(idx);
    }
}

// C14: membership operations of the uncompressed index agree with each other.
verif_proof! { [C14 C08]
    #[kani::unwind(6)]
    fn c14_remove_entries_embedding_for() {
        let ids: [u64; 3] = kani::any();
        let vals: [f32; 3] = kani::any();
        kani::assume(!vals[0].is_nan() && !vals[1].is_nan() && !vals[2].is_nan());
        let mut docs = Vec::new();
        let mut i = 0;
        while i < 3 {
            docs.push(VecDocument { frame_id: ids[i], embedding: vec![vals[i]] });
            i += 1;
        }
        let mut idx = VecIndex::Uncompressed { documents: docs };
        let victim: u64 = kani::any();
        idx.remove(victim);
        assert!(idx.embedding_for(victim).is_none(), "[C14] a removed frame still has an embedding in the index");
        let mut expected = 0usize;
        let mut i = 0;
        while i < 3 {
            if ids[i] != victim {
                expected += 1;
                match idx.embedding_for(ids[i]) {
                    Some(e) => {
                        assert!(e.len() == 1, "[C14] embedding length changed");
                        // first document with that id wins
                        let mut first = i;
                        let mut j = 0;
                        while j < i {
                            if ids[j] == ids[i] && first == i { first = j; }
                            j += 1;
                        }
                        assert!(e[0] == vals[first], "[C14] embedding_for returns an embedding that was not given to the frame");
                    }
                    None => assert!(false, "[C14] remove dropped a frame other than the target"),
                }
            }
            i += 1;
        }
        let mut n = 0usize;
        {
            let mut it = idx.entries();
            while let Some((fid, emb)) = it.next() {
                assert!(fid != victim, "[C14] entries() still lists a removed frame");
                assert!(emb.len() == 1, "[C14] entries() embedding length changed");
                n += 1;
            }
            leak(it);
        }
        assert!(n == expected, "[C14] entries() does not list exactly the remaining documents");
        kani::cover!(expected == 2, "one document removed");
        kani::cover!(expected == 3, "nothing removed");
        leak(idx);
    }
}
