// harnesses for src/memvid/lifecycle.rs (child module: sees private items of its parent)
