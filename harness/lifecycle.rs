// Harnesses for src/memvid/lifecycle.rs.
#![allow(unused_imports, static_mut_refs, clippy::all, clippy::pedantic)]
use super::*;
use crate::verif_env::*;

#[path = "/verif/harness/playback/lifecycle.rs"]
mod playback;

// C06: next_frame_id() = committed frames + acknowledged-but-uncommitted inserts
verif_proof! { [C06]
    #[kani::unwind(5)]
    #[kani::use_stub_set(crate::verif_env::memvid_stubs)]
    fn c06_next_frame_id() {
        let mut toc = empty_toc();
        let n: usize = kani::any();
        kani::assume(n <= 3);
        let mut i = 0;
        while i < n {
            toc.frames.push(mk_frame(i as u64, 0, FrameStatus::Active));
            i += 1;
        }
        let mut mv = mk_memvid(toc, mk_header(65536));
        let pending: u64 = kani::any();
        mv.pending_frame_inserts = pending;
        let id = mv.next_frame_id();
        if pending <= u64::MAX - 3 {
            assert!(id == n as u64 + pending, "[C06] next_frame_id is not (committed frames + pending inserts)");
        }
        assert!(mv.frame_count() == n, "[C06] frame_count is not the number of frames");
        kani::cover!(n == 3 && pending == 2, "reached");
        leak(mv);
    }
}

// C24: the capacity limit is the ticket's capacity, else the tier's.
verif_proof! { [C24]
    #[kani::unwind(3)]
    #[kani::use_stub_set(crate::verif_env::memvid_stubs)]
    fn c24_capacity_limit() {
        let mut toc = empty_toc();
        let cap: u64 = kani::any();
        toc.ticket_ref.capacity_bytes = cap;
        let wal_size: u64 = kani::any();
        kani::assume(wal_size >= 1);
        let mv = mk_memvid(toc, mk_header(wal_size));
        let lim = mv.capacity_limit();
        let tier = mv.tier();
        if cap != 0 {
            assert!(lim == cap, "[C24] capacity limit ignores the capacity granted by the ticket");
        } else {
            assert!(lim == tier.capacity_bytes(), "[C24] capacity limit without a ticket is not the tier's capacity");
        }
        let want_tier = if wal_size >= crate::constants::WAL_SIZE_LARGE { Tier::Enterprise } else if wal_size >= crate::constants::WAL_SIZE_MEDIUM { Tier::Dev } else { Tier::Free };
        assert!(tier == want_tier, "[C24] tier derived from the header is wrong");
        assert!(mv.get_capacity() == lim, "[C24] get_capacity disagrees with the enforced limit");
        kani::cover!(cap == 0 && tier == Tier::Dev, "tier capacity used");
        leak(mv);
    }
}

// probe (not registered): cost of cloning an empty BTreeMap / a default Frame
verif_proof! { [env]
    #[kani::unwind(5)]
    fn probe_clone_empty_btreemap() {
        let m: std::collections::BTreeMap<String, String> = std::collections::BTreeMap::new();
        let c = m.clone();
        assert!(c.is_empty());
        let f = mk_frame(0, 0, FrameStatus::Active);
        let g = f.clone();
        assert!(g.id == 0);
        leak(f); leak(g); leak(m); leak(c);
    }
}

// ===========================================================================
// C22 / C20: open-time validators on arbitrary TOC-supplied numbers.
// ===========================================================================
fn any_status() -> FrameStatus {
    let b: u8 = kani::any();
    kani::assume(b < 3);
    match b { 0 => FrameStatus::Active, 1 => FrameStatus::Deleted, _ => FrameStatus::Superseded }
}

verif_proof! { [C22 C20]
    #[kani::unwind(34)]
    #[kani::stub(alloc::fmt::format, crate::verif_env::stub_format)]
    fn c22_verify_toc_prefix() {
        let bytes: [u8; 32] = kani::any();
        let len: usize = kani::any();
        kani::assume(len <= 32);
        let r = verify_toc_prefix(&bytes[..len]);
        if r.is_ok() {
            assert!(len >= 24, "[C22] TOC prefix check accepted a truncated prefix");
            let ver = u64::from_le_bytes([bytes[0], bytes[1], bytes[2], bytes[3], bytes[4], bytes[5], bytes[6], bytes[7]]);
            let segs = u64::from_le_bytes([bytes[8], bytes[9], bytes[10], bytes[11], bytes[12], bytes[13], bytes[14], bytes[15]]);
            let frames = u64::from_le_bytes([bytes[16], bytes[17], bytes[18], bytes[19], bytes[20], bytes[21], bytes[22], bytes[23]]);
            assert!(ver <= 32 && segs <= 1_000_000 && frames <= 1_000_000, "[C22] TOC prefix check accepted unreasonable counts");
            assert!(segs * 32 + frames * 64 <= len as u64, "[C22] TOC prefix check accepted counts that cannot fit in the TOC bytes (huge allocation ahead)");
        }
        kani::cover!(r.is_ok(), "accepted");
        kani::cover!(r.is_err() && len >= 24, "rejected");
        leak(r);
    }
}

verif_proof! { [C22 C20]
    #[kani::unwind(5)]
    #[kani::use_stub_set(crate::verif_env::memvid_stubs)]
    #[kani::stub(alloc::fmt::format, crate::verif_env::stub_format)]
    fn c22_frame_bounds_validators() {
        let mut toc = empty_toc();
        let mut off = [0u64; 2];
        let mut len = [0u64; 2];
        let mut st = [FrameStatus::Active; 2];
        let mut f0 = mk_frame(0, 0, FrameStatus::Active);
        off[0] = kani::any(); len[0] = kani::any(); st[0] = any_status();
        f0.payload_offset = off[0]; f0.payload_length = len[0]; f0.status = st[0];
        let mut f1 = mk_frame(1, 0, FrameStatus::Active);
        off[1] = kani::any(); len[1] = kani::any(); st[1] = any_status();
        f1.payload_offset = off[1]; f1.payload_length = len[1]; f1.status = st[1];
        toc.frames.push(f0);
        toc.frames.push(f1);
        let file_len: u64 = kani::any();
        let mut header = mk_header(kani::any());
        header.wal_offset = kani::any();
        header.footer_offset = kani::any();
        // no panic for any numbers
        let r = ensure_non_overlapping_frames(&toc, file_len);
        let de = compute_data_end(&toc, &header);
        let pe = compute_payload_region_end(&toc, &header);
        let wal_end = header.wal_offset.saturating_add(header.wal_size);
        assert!(de >= wal_end && pe >= wal_end, "[C22] data end computed before the end of the log region");
        let live0 = st[0] == FrameStatus::Active && len[0] > 0;
        let live1 = st[1] == FrameStatus::Active && len[1] > 0;
        if r.is_ok() {
            if live0 { assert!(off[0] <= file_len && len[0] <= file_len - off[0], "[C20] a frame whose payload lies outside the file was accepted"); }
            if live1 { assert!(off[1] <= file_len && len[1] <= file_len - off[1], "[C20] a frame whose payload lies outside the file was accepted"); }
            if live0 && live1 {
                assert!(off[0] + len[0] <= off[1] || off[1] + len[1] <= off[0], "[C20] overlapping frame payloads were accepted");
            }
            if live0 { assert!(de >= off[0] + len[0] && pe >= off[0] + len[0], "[C22] data end does not cover an active payload"); }
        }
        kani::cover!(r.is_ok() && live0 && live1, "two live frames accepted");
        kani::cover!(r.is_err(), "rejected");
        leak(r);
        leak(toc);
    }
}

// ===========================================================================
// C22: read_toc (the TOC read of Memvid::open / doctor) on a file whose length, footer
// offset and TOC+footer bytes are arbitrary. File metadata, seek and read_to_end are ghosts
// (the region behind footer_offset is N arbitrary bytes, N fixed per instance, on both sides
// of the 56-byte footer size); Toc::decode (bincode) is a ghost. Obligation: an error or a
// TOC, never a panic (slice range, arithmetic underflow) — and only after the footer
// matched the TOC bytes (length and hash).
// ===========================================================================
static mut RT_FILE_LEN: u64 = 0;
static mut RT_REGION: [u8; 128] = [0; 128];
static mut RT_N: usize = 0;
static mut RT_DECODED: bool = false;
fn rt_metadata(_f: &File) -> std::io::Result<std::fs::Metadata> { Ok(unsafe { core::mem::zeroed() }) }
fn rt_meta_len(_m: &std::fs::Metadata) -> u64 { unsafe { RT_FILE_LEN } }
fn rt_seek(_f: &mut File, _p: SeekFrom) -> std::io::Result<u64> { Ok(0) }
fn rt_read_to_end(_f: &mut File, buf: &mut Vec<u8>) -> std::io::Result<usize> {
    unsafe {
        let n = RT_N;
        // read_toc reserved the capacity already; one block copy instead of n pushes
        buf.reserve(n);
        let at = buf.len();
        core::ptr::copy_nonoverlapping(RT_REGION.as_ptr(), buf.as_mut_ptr().add(at), n);
        buf.set_len(at + n);
        Ok(n)
    }
}
fn rt_toc_decode(_bytes: &[u8]) -> Result<Toc> { unsafe { RT_DECODED = true; } Ok(empty_toc()) }
fn read_toc_region<const N: usize>() {
    let region: [u8; 128] = kani::any();
    let fo: u64 = kani::any();
    kani::assume(fo < 1 << 40);
    unsafe { RT_REGION = region; RT_N = N; RT_FILE_LEN = fo + N as u64; RT_DECODED = false; }
    let truncated: bool = kani::any();
    if truncated {
        // the file ends before the recorded footer offset
        let cut: u64 = kani::any();
        kani::assume(cut < fo);
        unsafe { RT_FILE_LEN = cut; }
    }
    let mut header = mk_header(65536);
    header.footer_offset = fo;
    let mut file = fake_file();
    let r = read_toc(&mut file, &header);
    if r.is_ok() {
        assert!(!truncated && N >= 56, "[C22] read_toc accepted a file that is too short to hold a commit footer");
        let tl = u64::from_le_bytes([region[N - 56 + 8], region[N - 56 + 9], region[N - 56 + 10], region[N - 56 + 11], region[N - 56 + 12], region[N - 56 + 13], region[N - 56 + 14], region[N - 56 + 15]]);
        let _ = tl;
        assert!(unsafe { RT_DECODED }, "[C22] read_toc returned a TOC it never decoded");
    }
    if N < 56 || truncated { assert!(r.is_err(), "[C22] read_toc did not reject a region shorter than the commit footer"); }
    kani::cover!(r.is_err(), "rejected");
    leak(r);
    leak(file);
}
verif_proof! { [C22 C20]
    #[kani::unwind(5)]
    #[kani::use_stub_set(crate::verif_env::hasher_stubs)]
    #[kani::stub(std::fs::File::metadata, rt_metadata)]
    #[kani::stub(std::fs::Metadata::len, rt_meta_len)]
    #[kani::stub(<std::fs::File as std::io::Seek>::seek, rt_seek)]
    #[kani::stub(<std::fs::File as std::io::Read>::read_to_end, rt_read_to_end)]
    #[kani::stub(crate::types::Toc::decode, rt_toc_decode)]
    #[kani::stub(alloc::fmt::format, crate::verif_env::stub_format)]
    fn c22_read_toc_region_0() { read_toc_region::<0>(); }
}
verif_proof! { [C22 C20]
    #[kani::unwind(5)]
    #[kani::use_stub_set(crate::verif_env::hasher_stubs)]
    #[kani::stub(std::fs::File::metadata, rt_metadata)]
    #[kani::stub(std::fs::Metadata::len, rt_meta_len)]
    #[kani::stub(<std::fs::File as std::io::Seek>::seek, rt_seek)]
    #[kani::stub(<std::fs::File as std::io::Read>::read_to_end, rt_read_to_end)]
    #[kani::stub(crate::types::Toc::decode, rt_toc_decode)]
    #[kani::stub(alloc::fmt::format, crate::verif_env::stub_format)]
    fn c22_read_toc_region_55() { read_toc_region::<55>(); }
}
verif_proof! { [C22 C20]
    #[kani::unwind(5)]
    #[kani::use_stub_set(crate::verif_env::hasher_stubs)]
    #[kani::stub(std::fs::File::metadata, rt_metadata)]
    #[kani::stub(std::fs::Metadata::len, rt_meta_len)]
    #[kani::stub(<std::fs::File as std::io::Seek>::seek, rt_seek)]
    #[kani::stub(<std::fs::File as std::io::Read>::read_to_end, rt_read_to_end)]
    #[kani::stub(crate::types::Toc::decode, rt_toc_decode)]
    #[kani::stub(alloc::fmt::format, crate::verif_env::stub_format)]
    fn c22_read_toc_region_56() { read_toc_region::<56>(); }
}
verif_proof! { [C22 C20]
    #[kani::unwind(5)]
    #[kani::use_stub_set(crate::verif_env::hasher_stubs)]
    #[kani::stub(std::fs::File::metadata, rt_metadata)]
    #[kani::stub(std::fs::Metadata::len, rt_meta_len)]
    #[kani::stub(<std::fs::File as std::io::Seek>::seek, rt_seek)]
    #[kani::stub(<std::fs::File as std::io::Read>::read_to_end, rt_read_to_end)]
    #[kani::stub(crate::types::Toc::decode, rt_toc_decode)]
    #[kani::stub(alloc::fmt::format, crate::verif_env::stub_format)]
    fn c22_read_toc_region_60() { read_toc_region::<60>(); }
}
