// Harnesses for src/types/memories_track.rs.
#![allow(unused_imports, clippy::all, clippy::pedantic)]
use super::*;
use crate::verif_env::*;
use crate::types::memory_card::{MemoryCard, MemoryKind, VersionRelation};

#[path = "/verif/harness/playback/memories_track.rs"]
mod playback;

fn any_relation() -> VersionRelation {
    let b: u8 = kani::any();
    kani::assume(b < 4);
    match b { 0 => VersionRelation::Sets, 1 => VersionRelation::Updates, 2 => VersionRelation::Extends, _ => VersionRelation::Retracts }
}

fn mk_card(event: Option<i64>, doc: Option<i64>, created: i64, rel: VersionRelation) -> MemoryCard {
    MemoryCard {
        id: 0,
        kind: MemoryKind::Fact,
        entity: "e".to_string(),
        slot: "s".to_string(),
        value: "v".to_string(),
        polarity: None,
        event_date: event,
        document_date: doc,
        version_key: Some("k".to_string()),
        version_relation: rel,
        source_frame_id: 0,
        source_uri: None,
        source_offset: None,
        engine: String::new(),
        engine_version: String::new(),
        confidence: None,
        created_at: created,
    }
}

// C27: temporal consistency of get_at_time / get_current for one (entity, slot).
fn temporal<const N: usize>() {
    let mut track = MemoriesTrack::new();
    let mut eff = [0i64; N];
    let mut retr = [false; N];
    let mut ids = [0u64; N];
    let mut i = 0;
    while i < N {
        let ev: Option<i64> = kani::any();
        let doc: Option<i64> = kani::any();
        let created: i64 = kani::any();
        let rel = any_relation();
        eff[i] = ev.or(doc).unwrap_or(created);
        retr[i] = rel == VersionRelation::Retracts;
        ids[i] = track.add_card(mk_card(ev, doc, created, rel));
        i += 1;
    }
    let t: i64 = kani::any();
    let at = track.get_at_time("e", "s", t).map(|c| c.id);
    let cur = track.get_current("e", "s").map(|c| c.id);
    let mut max_eff = i64::MIN;
    let mut k = 0;
    while k < N {
        if eff[k] > max_eff { max_eff = eff[k]; }
        k += 1;
    }
    match at {
        Some(id) => {
            let mut idx = N;
            let mut k = 0;
            while k < N {
                if ids[k] == id { idx = k; }
                k += 1;
            }
            assert!(idx < N, "[C27] get_memory_at_time returned an unknown card");
            assert!(!retr[idx], "[C27] get_memory_at_time returned a retraction");
            assert!(eff[idx] <= t, "[C27] get_memory_at_time returned a card whose effective time is after t");
            let mut k = 0;
            while k < N {
                if !retr[k] && eff[k] <= t {
                    assert!(eff[k] <= eff[idx], "[C27] a more recent non-retracted card at or before t exists");
                }
                k += 1;
            }
        }
        None => {
            let mut k = 0;
            while k < N {
                assert!(retr[k] || eff[k] > t, "[C27] get_memory_at_time found nothing although a non-retracted card at or before t exists");
                k += 1;
            }
        }
    }
    if t >= max_eff {
        assert!(at == cur, "[C27] at or beyond the latest card, get_memory_at_time differs from get_current_memory");
    }
    kani::cover!(at.is_some() && cur.is_some() && at != cur, "time travel sees an older card");
    kani::cover!(at.is_none() && cur.is_some(), "nothing known yet at t");
    leak(track);
}

verif_proof! { [C27]
    #[kani::unwind(3)]
    #[kani::use_stub_set(crate::verif_env::memvid_stubs)]
    #[kani::use_stub_set(crate::verif_env::constant_hash_stubs)]
    #[kani::stub(alloc::fmt::format, crate::verif_env::stub_format)]
    fn c27_temporal_2cards() { temporal::<2>(); }
}
verif_proof! { [C27]
    #[kani::unwind(7)]
    #[kani::use_stub_set(crate::verif_env::memvid_stubs)]
    #[kani::stub(alloc::fmt::format, crate::verif_env::stub_format)]
    fn c27_temporal_3cards() { temporal::<3>(); }
}
