// Native demonstration for the C04 finding (integration test; copy to
// /repo/tests/ and run `cargo test --offline --test <name> -- --nocapture`).
//
// recover_wal() makes the TOC with the replayed frames durable (inside
// rebuild_indexes: rewrite_toc_footer + persist_header) BEFORE the header's
// wal_sequence is advanced and persisted. A crash between the two leaves
// exactly the file built below: everything as after recovery, except the two
// header words wal_checkpoint_pos / wal_sequence, which still have their
// pre-recovery values. The next open replays the same log records on top of
// a TOC that already contains them: the frame is duplicated.
use memvid_core::Memvid;
use std::fs;

#[test]
fn crash_between_toc_persist_and_checkpoint_duplicates_frames() {
    let dir = tempfile::tempdir().unwrap();
    let p1 = dir.path().join("a.mv2");
    let crash = dir.path().join("crash.mv2");
    let recovered = dir.path().join("recovered.mv2");
    let mid = dir.path().join("mid.mv2");

    // acknowledged put, then the process dies (no commit, no drop)
    let mut a = Memvid::create(&p1).unwrap();
    a.put_bytes(b"the only document").unwrap();
    fs::copy(&p1, &crash).unwrap();
    std::mem::forget(a);
    let pre = fs::read(&crash).unwrap();

    // uninterrupted recovery: one frame
    fs::copy(&crash, &recovered).unwrap();
    {
        let m = Memvid::open(&recovered).unwrap();
        assert_eq!(m.stats().unwrap().frame_count, 1, "uninterrupted recovery");
    }
    let mut img = fs::read(&recovered).unwrap();

    // crash after rebuild_indexes persisted TOC+header, before the checkpoint reached the header:
    // header bytes 32..48 (wal_checkpoint_pos, wal_sequence) still hold the old values
    img[32..48].copy_from_slice(&pre[32..48]);
    fs::write(&mid, &img).unwrap();

    let m = Memvid::open(&mid).unwrap();
    let frames = m.stats().unwrap().frame_count;
    println!("frames after recovering the interrupted recovery: {frames}");
    assert_eq!(frames, 1, "the acknowledged put must appear exactly once");
}
