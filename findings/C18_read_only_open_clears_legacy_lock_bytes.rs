// Native demonstration for the C18 finding (integration test; copy to
// /repo/tests/ and run `cargo test --offline --test <name> -- --nocapture`).
// open_read_only() calls HeaderCodec::read, which rewrites the 4 KiB header
// when the reserved legacy-lock bytes (80..140) are non-zero: a read-only
// open of such a (legacy) file modifies it.
use memvid_core::Memvid;
use std::fs;

#[test]
fn read_only_open_leaves_legacy_file_unchanged() {
    let dir = tempfile::tempdir().unwrap();
    let p = dir.path().join("legacy.mv2");
    {
        let mut m = Memvid::create(&p).unwrap();
        m.put_bytes(b"hello").unwrap();
        m.commit().unwrap();
    }
    // what an old writer left behind: lock metadata in the reserved header padding
    let mut img = fs::read(&p).unwrap();
    for b in &mut img[80..140] { *b = 0xAA; }
    fs::write(&p, &img).unwrap();
    let before = fs::read(&p).unwrap();
    {
        let m = Memvid::open_read_only(&p).unwrap();
        assert_eq!(m.stats().unwrap().frame_count, 1);
    }
    let after = fs::read(&p).unwrap();
    let changed = before.iter().zip(after.iter()).filter(|(a, b)| a != b).count();
    println!("bytes changed by a read-only open: {changed}");
    assert!(before == after, "open_read_only modified the file");
}
