use memvid_core::io::wal::EmbeddedWal;
use memvid_core::types::Header;

#[test]
fn wal_sentinel_clobber() {
    let file = tempfile::tempfile().unwrap();
    let size = 128u64;
    file.set_len(4096 + size).unwrap();
    let header = Header { magic: *b"MV2\0", version: 0x0201, footer_offset: 0, wal_offset: 4096, wal_size: size,
        wal_checkpoint_pos: 0, wal_sequence: 0, toc_checksum: [0u8; 32] };
    let mut wal = EmbeddedWal::open(&file, &header).unwrap();
    wal.append_entry(&[7u8; 1]).unwrap();
    wal.append_entry(&[9u8; 20]).unwrap();
    let recs = wal.pending_records().unwrap();
    println!("pending after two acked appends: {}", recs.len());
    assert_eq!(recs.len(), 2);
}
