//! Finding (C01, fixed): WAL growth moved every byte behind the log but
//! `adjust_offsets_after_wal_growth` left the sketch-track / memories-track / logic-mesh /
//! CLIP-index / replay-segment offsets in the TOC unchanged, and the TOC is persisted right
//! after the growth. A crash (or any reopen) before the next commit then fails with
//! `InvalidSketchTrack { reason: "Invalid sketch track magic" }`: the whole memory is unreadable.
//!
//! Found by the solver harness `c01_wal_growth_shifts_tracks` (bin/check C01) after a seeding
//! sub-agent tripped over the symptom; this is the native demonstration (public API only).
//! Copy to /repo/tests/ and run `cargo test --offline --test C01_wal_growth_leaves_track_offsets_stale`:
//! fails before the fix commit, passes after it.
use memvid_core::{Memvid, PutOptions};
use tempfile::tempdir;

#[test]
fn reopen_after_wal_growth_with_persisted_sketch_track() {
    let dir = tempdir().unwrap();
    let path = dir.path().join("grow.mv2");
    let mut mem = Memvid::create(&path).unwrap();
    let mut docs = Vec::new();
    for i in 0..4 {
        let text = format!("document number {i} talks about rust memory stores and write ahead logs");
        mem.put_bytes_with_options(text.as_bytes(), PutOptions::default()).unwrap();
        docs.push(text);
    }
    mem.commit().unwrap();
    assert!(mem.has_sketches(), "the commit persisted a sketch track");
    // one put larger than the 64 KiB log region forces grow_wal_region()
    let big: Vec<u8> = (0..200_000u32).map(|i| (i % 251) as u8).collect();
    mem.put_bytes_with_options(&big, PutOptions::default()).unwrap();
    // crash before the next commit
    std::mem::forget(mem);
    let mut m = Memvid::open(&path).expect("file must still open after a crash that follows WAL growth");
    assert!(m.stats().unwrap().frame_count >= 5);
    for (i, text) in docs.iter().enumerate() {
        assert_eq!(m.frame_canonical_payload(i as u64).unwrap(), text.as_bytes(), "committed frame {i} changed");
    }
    assert!(m.has_sketches(), "sketch track lost");
}
