// Native demonstration (integration test; copy to /repo/tests/ and run
// `cargo test --offline --test <name>`): FAILS on the tree before the
// "fix: keep the writer lock on the file that the commit renames into place"
// commit (second writable open succeeds while the first handle is alive),
// PASSES after it.
use memvid_core::Memvid;
#[test]
fn second_writer_after_commit() {
    let dir = tempfile::tempdir().unwrap();
    let path = dir.path().join("m.mv2");
    let mut a = Memvid::create(&path).unwrap();
    a.put_bytes(b"hello world").unwrap();
    a.commit().unwrap();
    let b = Memvid::open(&path);
    assert!(b.is_err(), "two writable handles on the same path");
    drop(b);
    a.put_bytes(b"second").unwrap();
    a.commit().unwrap();
    let c = Memvid::open(&path);
    assert!(c.is_err(), "two writable handles on the same path after second commit");
    drop(c);
    drop(a);
    let d = Memvid::open(&path).expect("open after the writer is gone");
    assert_eq!(d.stats().unwrap().frame_count, 2);
}
