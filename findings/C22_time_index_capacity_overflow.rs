// Native demonstration for the C22 finding (integration test; copy to
// /repo/tests/ and run `cargo test --offline --test <name>`).
// read_track() pre-allocates `count` entries where count and the declared
// length both come from the file: a crafted track header makes it panic
// ("capacity overflow") or abort on allocation failure instead of returning
// an error. verify()/timeline() pass the TOC manifest's length unchecked.
use memvid_core::io::time_index::read_track;
use std::io::Cursor;

#[test]
fn crafted_time_index_header_is_rejected_not_panicking() {
    let count: u64 = 1 << 59; // 2^59 entries * 16 bytes = 2^63 bytes > isize::MAX
    let mut bytes = Vec::new();
    bytes.extend_from_slice(b"MVTI");
    bytes.extend_from_slice(&count.to_le_bytes());
    let length = 12 + 16 * count;
    let r = std::panic::catch_unwind(|| {
        let mut c = Cursor::new(bytes.clone());
        read_track(&mut c, 0, length)
    });
    match r {
        Ok(res) => assert!(res.is_err(), "a 12-byte track cannot hold 2^59 entries"),
        Err(_) => panic!("read_track panicked on a crafted header instead of returning an error"),
    }
}
