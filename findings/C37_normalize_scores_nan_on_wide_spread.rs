use memvid_core::types::adaptive::normalize_scores;
#[test]
fn normalized_scores_stay_in_unit_interval_for_extreme_finite_scores() {
    let n = normalize_scores(&[3.0e38, -3.0e38, 0.0]);
    eprintln!("{n:?}");
    assert!(n.iter().all(|x| (0.0..=1.0).contains(x)), "normalized scores must lie in [0, 1]: {n:?}");
    assert_eq!(n[0], 1.0, "the maximum maps to 1");
}
